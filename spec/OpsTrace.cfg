SPECIFICATION Spec
POSTCONDITION Accepted

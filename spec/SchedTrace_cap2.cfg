SPECIFICATION TSpec
CONSTANTS
  Threads = {"t0", "t1", "t2", "t9"}
  Cap = 2
  MaxFs = 100000
  MaxQ = 100000
  FIX_ERR = TRUE
  FIX_RACE = TRUE
  FIX_RDCLOSED = TRUE
POSTCONDITION Accepted
CHECK_DEADLOCK FALSE

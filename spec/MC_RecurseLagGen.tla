-------------------------- MODULE MC_RecurseLagGen --------------------------
(* Like MC_RecurseGen, but with a lagging reader as the real one lags when nobody receives from an unbuffered        *)
(* Watcher: it handles records until one of them yields an event, then it is parked in the send of that event while  *)
(* further records pile up in the kernel queue; a "drain" step of the driver receives everything and lets it catch   *)
(* up.  inorun replays the behaviours with an observation (quiescence) after every operation, so that the real       *)
(* reader is parked exactly where the model's is.                                                                     *)
EXTENDS InotifyRecurse, Json

CONSTANT GenSteps
VARIABLES hist, parked, draining
gvars == <<vars, hist, parked, draining>>
GInit == Init /\ hist = <<>> /\ parked = FALSE /\ draining = FALSE
Lbl(x) == hist' = Append(hist, x)
Yields(r) == r.kind \in {"create", "createfile", "delete", "movedfrom", "movedto"} \/ (r.kind = "delself" /\ \E x \in wdT : x.wd = r.wd)
Vis == \/ \E r \in Roots : (AddRec(r) /\ Lbl(<<"add", TruePath(r)>>)) \/ (RemoveRec(r) /\ Lbl(<<"remove", TruePath(r)>>))
       \/ \E p \in 1..MaxIno, n \in Comp : Mkdir(p, n) /\ Lbl(<<"mkdir", Append(TruePath(p), n)>>)
       \/ \E i \in 1..MaxIno : Rmdir(i) /\ Lbl(<<"rmdir", TruePath(i)>>)
       \/ \E p \in 1..MaxIno, n \in Comp : Touch(p, n) /\ Lbl(<<"touch", Append(TruePath(p), n)>>)
       \/ \E i, np \in 1..MaxIno, n \in Comp : Rename(i, np, n) /\ Lbl(<<"rename", TruePath(i), Append(TruePath(np), n)>>)
       \/ \E i, j \in 1..MaxIno : RenameOver(i, j) /\ Lbl(<<"rename2", TruePath(i), TruePath(j)>>)
\* the reader runs whenever it can: priority over the driver's next step (the driver waits for quiescence)
CanHandle == kq # <<>> /\ (~parked \/ draining)
GNext == \/ /\ CanHandle /\ Handle
            /\ parked' = (IF draining THEN FALSE ELSE (parked \/ (Yields(Head(kq)) /\ \E x \in wdT : x.wd = Head(kq).wd)))
            /\ UNCHANGED <<hist, draining>>
         \/ /\ draining /\ kq = <<>> /\ draining' = FALSE /\ parked' = FALSE /\ UNCHANGED <<vars, hist>>
         \/ /\ ~CanHandle /\ ~draining /\ (parked \/ kq # <<>>) /\ steps >= 1
            /\ draining' = TRUE /\ Lbl(<<"drain">>) /\ UNCHANGED <<vars, parked>>
         \/ /\ ~CanHandle /\ ~draining /\ steps < GenSteps /\ Vis /\ UNCHANGED <<parked, draining>>
GSpec == GInit /\ [][GNext]_gvars
Emit == (steps = GenSteps /\ kq = <<>> /\ ~parked /\ ~draining) =>
          PrintT(<<"SCN", ToJson([hist |-> hist, paths |-> {x.path : x \in pathT}, nwd |-> Cardinality(wdT), npath |-> Cardinality(pathT),
                                   nmarks |-> Cardinality(marks), bad |-> bad])>>)
=============================================================================

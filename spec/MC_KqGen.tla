------------------------------ MODULE MC_KqGen ------------------------------
(* Scenario generation from the kqueue bookkeeping model (spec -> code direction): every behaviour of          *)
(* KqueueTables of GenSteps driver-visible steps is printed as JSON together with the model's table state     *)
(* after every drain and at the end.  The reader is held back while the driver-visible steps are made and      *)
(* catches up completely at a "drain" step (kqrun: hold / release + drain), which is how the simulated kernel  *)
(* lets a schedule be forced; Close is only made on a drained stream.  KqueueTrace judges the trace as always *)
(* and compares the observed descriptors and table sizes with the model's (a difference is MODEL-DRIFT: the    *)
(* model no longer describes the code - not a verdict on a property).                                          *)
EXTENDS KqueueTables, Json

CONSTANT GenSteps
VARIABLES hist, draining
gvars == <<vars, hist, draining>>

Snapshot == [nfd |-> Cardinality(open), npath |-> Cardinality(wdT), nbyuser |-> Cardinality(byUser), nseen |-> Cardinality(seen),
             wl |-> byUser]
GInit == Init /\ hist = <<>> /\ draining = FALSE
Lbl(x) == hist' = Append(hist, x)
\* Add and Remove may be made while kevents are pending (kqrun logs the whole stretch between two drains as one burst
\* with the notes of the knotes that still exist at its end); Close is made on a drained stream
Vis == \/ \E sp \in Spellings : (Add(sp) /\ Lbl(<<"add", sp>>)) \/ (RemoveWatch(sp) /\ Lbl(<<"remove", sp>>))
       \/ \E n \in Names : (FsCreate(n) /\ Lbl(<<"create", n>>)) \/ (FsUnlink(n) /\ Lbl(<<"unlink", n>>)) \/ (FsWrite(n) /\ Lbl(<<"write", n>>)) \/ (FsChmod(n) /\ Lbl(<<"chmod", n>>))
       \/ \E n, m \in Names : FsRename(n, m) /\ Lbl(<<"rename", n, m>>)
       \/ (actq = <<>> /\ Close /\ Lbl(<<"close">>))
GNext == \/ /\ draining /\ actq # <<>> /\ Handle /\ UNCHANGED <<hist, draining>>
         \/ /\ draining /\ actq = <<>> /\ draining' = FALSE /\ Lbl(<<"drained", Snapshot>>) /\ UNCHANGED vars
         \/ /\ ~draining /\ actq # <<>> /\ ~closed /\ draining' = TRUE /\ Lbl(<<"drain">>) /\ UNCHANGED vars
         \/ /\ ~draining /\ steps < GenSteps /\ Vis /\ UNCHANGED draining
GSpec == GInit /\ [][GNext]_gvars

\* print every complete, quiescent behaviour once
Emit == (steps = GenSteps /\ ~draining /\ (actq = <<>> \/ closed)) =>
          PrintT(<<"SCN", ToJson([hist |-> hist, final |-> Snapshot, closed |-> closed])>>)
MCNames == {"x", "y"}
=============================================================================

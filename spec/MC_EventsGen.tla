---------------------------- MODULE MC_EventsGen ----------------------------
(* Scenario generation from the event-path model (spec -> code direction): every history of GenSteps operations   *)
(* of InotifyEvents, each one fully read, handled and received before the next (maximal progress), is printed as   *)
(* JSON together with the sequence of events the model says the user receives (the ideal translation of the        *)
(* records its small kernel queues).  inorun replays it next to the shadow instance; InotifyTrace judges the trace  *)
(* as always and compares what was received with the model's sequence (MODEL-DRIFT).                                *)
EXTENDS InotifyEvents, Json

CONSTANT GenSteps
VARIABLE hist
gvars == <<vars, hist>>
GInit == Init /\ hist = <<>>
Lbl(x) == hist' = Append(hist, x)
Op(a) == \/ (Create(a) /\ Lbl(<<"create", a>>)) \/ (Write(a) /\ Lbl(<<"write", a>>)) \/ (Chmod(a) /\ Lbl(<<"chmod", a>>))
         \/ (Unlink(a) /\ Lbl(<<"unlink", a>>)) \/ (MoveOut(a) /\ Lbl(<<"moveout", a>>)) \/ (MoveIn(a) /\ Lbl(<<"movein", a>>))
         \/ \E b \in Names : Rename(a, b) /\ Lbl(<<"rename", a, b>>)
OpFd == \/ (Open /\ Lbl(<<"open", fmark>>)) \/ (FdWrite /\ Lbl(<<"fdwrite">>)) \/ (Release /\ Lbl(<<"release">>))
ReadAll == /\ buf = <<>> /\ out = NoEv /\ kq # <<>> /\ buf' = kq /\ kq' = <<>>
           /\ UNCHANGED <<present, fmark, w2end, held, hgone, prepd, cookie, nops, tab, out, ring, ridx, evq, want, got>>
GNext == \/ /\ ~Drained /\ (ReadAll \/ Handle \/ Send \/ Recv) /\ UNCHANGED hist
         \/ /\ Drained /\ nops < GenSteps /\ (OpFd \/ \E a \in Names : Op(a))
GSpec == GInit /\ [][GNext]_gvars
Emit == (nops = GenSteps /\ Drained) =>
          PrintT(<<"SCN", ToJson([hist |-> hist, want |-> [i \in 1..Len(want) |-> Ideal(i)]])>>)
MCNames == {"x", "y"}
=============================================================================

----------------------------- MODULE KqueueConc -----------------------------
(***************************************************************************)
(* Why the kqueue backend loses descriptors under concurrent use (the      *)
(* known finding kqconc:descriptors_open_after_close of C17): Add, Remove  *)
(* and Close are sequences of separately synchronised steps -              *)
(*   addWatch:  closed?  ->  byPath(name)  ->  open()  ->  register  ->    *)
(*              watches.add(name, fd)                                      *)
(*   remove:    byPath(name)  ->  EV_DELETE, close(fd)  ->  watches.remove *)
(*   Close:     mark closed  ->  list the paths  ->  remove each           *)
(* - each table access takes the tables' own lock, but nothing spans a     *)
(* whole call.  One path, Threads goroutines each making one call.         *)
(*                                                                         *)
(* NoLeak: every open descriptor is in the table (so that somebody will    *)
(* close it), and after Close has finished nothing is open.  With LOCKED   *)
(* (one mutex around each whole call - what a repair has to provide) the   *)
(* invariant holds; without it TLC finds the histories kqstress observes:  *)
(* two Adds of one path both open it and the second insert overwrites the  *)
(* first, or an Add that passed the closed-check inserts after Close has   *)
(* released everything.                                                    *)
(***************************************************************************)
EXTENDS Integers, FiniteSets, TLC

CONSTANTS Threads, LOCKED

VARIABLES tab,       \* the path's row: 0 (none) or the descriptor
          open,      \* descriptors open
          nextFd,
          closed,    \* the watcher was marked closed
          closeDone, \* Close has finished releasing
          pc, op, fd, \* per thread: program counter, operation, descriptor in hand
          lock       \* holder of the (hypothetical) call-wide mutex, or "free"
vars == <<tab, open, nextFd, closed, closeDone, pc, op, fd, lock>>

Init == /\ tab = 0 /\ open = {} /\ nextFd = 1 /\ closed = FALSE /\ closeDone = FALSE
        /\ pc = [t \in Threads |-> "idle"] /\ op = [t \in Threads |-> "none"] /\ fd = [t \in Threads |-> 0] /\ lock = "free"

Go(t, p) == pc' = [pc EXCEPT ![t] = p]
Acquire(t) == IF LOCKED THEN lock = "free" /\ lock' = t ELSE UNCHANGED lock
Release(t) == IF LOCKED THEN lock' = "free" ELSE UNCHANGED lock
Held(t) == LOCKED => lock = t

Start(t) == /\ pc[t] = "idle" /\ \E o \in {"add", "remove", "close"} : op' = [op EXCEPT ![t] = o]
            /\ Acquire(t) /\ Go(t, "check") /\ UNCHANGED <<tab, open, nextFd, closed, closeDone, fd>>
\* the closed-check at the top of addWatch / remove; Close marks the watcher closed (once)
Check(t) == /\ pc[t] = "check" /\ Held(t)
            /\ IF op[t] = "close"
               THEN IF closed THEN Go(t, "done") /\ Release(t) /\ UNCHANGED closed
                    ELSE closed' = TRUE /\ Go(t, "lookup") /\ UNCHANGED lock
               ELSE IF closed THEN Go(t, "done") /\ Release(t) /\ UNCHANGED closed
                    ELSE Go(t, "lookup") /\ UNCHANGED <<closed, lock>>
            /\ UNCHANGED <<tab, open, nextFd, closeDone, op, fd>>
\* byPath(name) under the tables' own lock
Lookup(t) == /\ pc[t] = "lookup" /\ Held(t)
             /\ fd' = [fd EXCEPT ![t] = tab]
             /\ IF op[t] = "add" THEN (IF tab # 0 THEN Go(t, "done") /\ Release(t) ELSE Go(t, "open") /\ UNCHANGED lock)      \* already watching: re-register only
                ELSE IF tab = 0 THEN (IF op[t] = "close" THEN closeDone' = TRUE ELSE UNCHANGED closeDone) /\ Go(t, "done") /\ Release(t)   \* ErrNonExistentWatch / nothing to release
                ELSE Go(t, "unreg") /\ UNCHANGED lock
             /\ (op[t] # "close" \/ tab # 0 => UNCHANGED closeDone)
             /\ UNCHANGED <<tab, open, nextFd, closed, op>>
\* unix.Open + kevent(EV_ADD)
Open(t) == /\ pc[t] = "open" /\ Held(t)
           /\ fd' = [fd EXCEPT ![t] = nextFd] /\ open' = open \cup {nextFd} /\ nextFd' = nextFd + 1
           /\ Go(t, "insert") /\ UNCHANGED <<tab, closed, closeDone, op, lock>>
\* watches.add(name, fd): the row now points at this descriptor
Insert(t) == /\ pc[t] = "insert" /\ Held(t)
             /\ tab' = fd[t] /\ Go(t, "done") /\ Release(t)
             /\ UNCHANGED <<open, nextFd, closed, closeDone, op, fd>>
\* kevent(EV_DELETE), unix.Close(fd) (EBADF if someone else closed it already), watches.remove
Unreg(t) == /\ pc[t] = "unreg" /\ Held(t)
            /\ open' = open \ {fd[t]} /\ Go(t, "delrow") /\ UNCHANGED <<tab, nextFd, closed, closeDone, op, fd, lock>>
DelRow(t) == /\ pc[t] = "delrow" /\ Held(t)
             /\ tab' = (IF tab = fd[t] THEN 0 ELSE tab)
             /\ closeDone' = (closeDone \/ op[t] = "close")
             /\ Go(t, "done") /\ Release(t) /\ UNCHANGED <<open, nextFd, closed, op, fd>>

Next == \E t \in Threads : Start(t) \/ Check(t) \/ Lookup(t) \/ Open(t) \/ Insert(t) \/ Unreg(t) \/ DelRow(t)
Spec == Init /\ [][Next]_vars

Quiet == \A t \in Threads : pc[t] \in {"idle", "done"}
\* C17: with nobody inside a call, every open descriptor is in the table; once Close has finished nothing is open
NoLeak == Quiet => /\ open \subseteq {tab}
                   /\ (closeDone => open = {})
=============================================================================

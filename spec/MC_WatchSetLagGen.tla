------------------------- MODULE MC_WatchSetLagGen -------------------------
(* Like MC_WatchSetGen, but with a lagging reader as the real one lags when nobody receives from an unbuffered          *)
(* Watcher: it handles records until one of them yields an event (IN_DELETE_SELF: Remove, IN_MOVE_SELF: Rename), then    *)
(* it is parked in the send of that event while further records pile up and Add / Remove calls are made; a "drain"      *)
(* step of the driver receives everything and lets it catch up.  inorun replays the behaviours with an observation       *)
(* (quiescence) after every step, so that the real reader is parked exactly where the model's is.                        *)
EXTENDS InotifyTables, Json

CONSTANT GenSteps
VARIABLES hist, parked, draining
gvars == <<vars, hist, parked, draining>>
GInit == Init /\ hist = <<>> /\ parked = FALSE /\ draining = FALSE
Lbl(x) == hist' = Append(hist, x)
\* the record at the head makes the reader send an event (it has a row in the tables and is not mere housekeeping)
Yields == kq # <<>> /\ Head(kq).kind \in {"delself", "moveself"} /\ WdPath(Head(kq).wd) # {}
CanHandle == kq # <<>> /\ ~panic /\ (~parked \/ draining)
Vis == \/ \E p \in Paths : \/ Add(p, TRUE) /\ Lbl(<<"add", p>>)
                           \/ Remove(p) /\ Lbl(<<"remove", p>>)
                           \/ Unlink(p) /\ Lbl(<<"unlink", p>>)
                           \/ MoveAway(p) /\ Lbl(<<"moveaway", p>>)
                           \/ Create(p) /\ Lbl(<<"create", p>>)
       \/ Retarget /\ Lbl(<<"retarget", ltgt'>>)
GNext == \/ /\ CanHandle /\ Handle
            /\ parked' = (IF draining THEN FALSE ELSE (parked \/ Yields))
            /\ UNCHANGED <<hist, draining>>
         \/ /\ draining /\ kq = <<>> /\ draining' = FALSE /\ parked' = FALSE /\ UNCHANGED <<vars, hist>>
         \/ /\ ~CanHandle /\ ~draining /\ (parked \/ kq # <<>>) /\ ~panic
            /\ draining' = TRUE /\ Lbl(<<"drain">>) /\ UNCHANGED <<vars, parked>>
         \/ /\ ~CanHandle /\ ~draining /\ steps < GenSteps /\ Vis /\ UNCHANGED <<parked, draining>>
GSpec == GInit /\ [][GNext]_gvars
Emit == (steps = GenSteps /\ kq = <<>> /\ ~parked /\ ~draining /\ ~panic) =>
          PrintT(<<"SCN", ToJson([hist |-> hist, wl |-> {r.path : r \in pathTab}, nmarks |-> Cardinality(marks),
                                   nwd |-> Cardinality(wdTab), npath |-> Cardinality(pathTab)])>>)
=============================================================================

SPECIFICATION Spec
CONSTANTS
  Watchers <- MCWatchers
  MaxAdd = 2
  STALE_RM = FALSE
INVARIANTS NoForeignCall Independent Released OneOwner
CHECK_DEADLOCK FALSE

SPECIFICATION Spec
CONSTANTS
  Names <- MCNames
  MaxSteps = 6
  FIX_CLOSE = FALSE
  USER_NESTS = FALSE
  USER_REMOVES_ENTRIES = FALSE
  USER_RENAMES = FALSE
  RECHECK_ON_RENAME = FALSE
  ENTRIES_ARE_DIRS = FALSE
  RECHECK_DIRS = TRUE
  FIX_BYUSER = TRUE
INVARIANTS FdsMatch ListOK AllGone Released CreateOnce
CHECK_DEADLOCK FALSE

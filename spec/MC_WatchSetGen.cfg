SPECIFICATION GSpec
CONSTANTS
  MaxSteps = 9
  MaxIno = 5
  GenSteps = 4
  FIX_REPOINT = TRUE
  OPS = FALSE
  MASK_ADD = TRUE
  MAXQ = 0
  ALIAS_OPS = FALSE
INVARIANT Emit
CHECK_DEADLOCK FALSE

---------------------------- MODULE InotifyTables ----------------------------
(***************************************************************************)
(* Code-shaped model of the bookkeeping of the inotify backend: the two    *)
(* tables (wd -> watch, path -> wd) kept as independent relations - so     *)
(* that they CAN diverge, as in the code - the kernel's mark list, and a   *)
(* literal transcription of watches.updatePath / inotify.register /        *)
(* watches.removePath / inotify.remove and of the table part of            *)
(* handleEvent (IN_IGNORED, IN_DELETE_SELF, IN_MOVE_SELF).                 *)
(*                                                                         *)
(* Universe: two files a, b; paths A (names a), B (names b), H (a hard     *)
(* link to a), L (a symbolic link that can be re-targeted between a and    *)
(* b), M (missing).  The file behind a path can be deleted and re-created  *)
(* (new inode), renamed away, or kept alive by the hard link.              *)
(*                                                                         *)
(* API calls are atomic (they run under the mutex); the reader processes   *)
(* one kernel record per step, so calls interleave with pending records    *)
(* (the lag window).  Checked for all histories up to MaxSteps (C04, C09,  *)
(* C12): no nil dereference, tables mutually consistent, and - whenever    *)
(* the kernel queue is empty - kernel marks = inodes behind the listed     *)
(* paths, one table row per live watch, WatchList = the ideal watch set.   *)
(***************************************************************************)
EXTENDS Integers, Sequences, FiniteSets, TLC

CONSTANTS MaxSteps, MaxIno,
          FIX_REPOINT,       \* D2/D3 repaired: the old kernel watch is released, a stale path key is dropped
          OPS,               \* Add may ask for a narrow operation set (withOps: nothing that ends the watch - no IN_MOVE_SELF / IN_DELETE_SELF)
          MASK_ADD,          \* the code: a re-Add of a listed path passes IN_MASK_ADD, the kernel adds to the mask instead of replacing it
          MAXQ,              \* 0: the kernel queue is unbounded; n > 0: at most n records are pending, further ones are dropped
                             \* (fs.inotify.max_queued_events; the overflow marker itself is not modelled here - see InotifySched)
          ALIAS_OPS          \* a narrow Add may also be made under another name of a watched file (no IN_MASK_ADD there: the mask is replaced)

Paths == {"A", "B", "H", "L", "M"}
NoIno == 0

VARIABLES name,      \* path -> inode it names directly (0: no such entry); for L: irrelevant
          ltgt,      \* target path of the symbolic link L ("A" or "B")
          alive,     \* set of inodes that still exist (link count > 0)
          nextIno,
          marks,     \* kernel: set of [wd, ino, end]   (end: the mask has IN_MOVE_SELF / IN_DELETE_SELF)
          nextWd,
          kq,        \* kernel queue: sequence of [wd, kind] with kind in {"delself", "ignored", "moveself"}
          wdTab,     \* set of [wd, path, fl]   (w.watches.wd; fl: the recorded flags contain the end bits)
          pathTab,   \* set of [path, wd]       (w.watches.path)
          panic,     \* a nil *watch was dereferenced
          uw,        \* ghost: the ideal watch set, path -> inode (first spelling wins; see Ideal.tla)
          wantEnd,   \* ghost: listed paths for which some Add since the watch began asked for the full operation set
          away,      \* inodes that were renamed to a name outside the universe (they stay alive whatever happens to A, B, H)
          steps
vars == <<name, ltgt, alive, nextIno, marks, nextWd, kq, wdTab, pathTab, panic, uw, wantEnd, away, steps>>

Init == /\ name = [p \in Paths |-> CASE p = "A" -> 1 [] p = "H" -> 1 [] p = "B" -> 2 [] OTHER -> NoIno]
        /\ ltgt = "B" /\ alive = {1, 2} /\ nextIno = 3
        /\ marks = {} /\ nextWd = 1 /\ kq = <<>>
        /\ wdTab = {} /\ pathTab = {} /\ panic = FALSE /\ uw = [p \in {} |-> 0] /\ wantEnd = {} /\ away = {} /\ steps = 0

\* what a path resolves to (following the link), 0 if nothing
Resolve(p) == IF p = "L" THEN name[ltgt] ELSE name[p]
WdOfIno(i) == {m.wd : m \in {m \in marks : m.ino = i}}
PathWd(p) == {r.wd : r \in {r \in pathTab : r.path = p}}
WdPath(wd) == {r.path : r \in {r \in wdTab : r.wd = wd}}
\* the kernel queues records unless the queue is full
Q(q, rs) == IF MAXQ = 0 \/ Len(q) + Len(rs) <= MAXQ THEN q \o rs ELSE SubSeq(q \o rs, 1, IF Len(q) > MAXQ THEN Len(q) ELSE MAXQ)
WdFl(wd) == \E r \in wdTab : r.wd = wd /\ r.fl
EndOf(i) == \E m \in marks : m.ino = i /\ m.end
Without(f, S) == [x \in (DOMAIN f) \ S |-> f[x]]

---------------------------------------------------------------------------
\* Add(p): AddWith -> register -> updatePath, transcribed
Add(p, all) ==
  /\ steps < MaxSteps /\ ~panic /\ steps' = steps + 1
  /\ (all \/ OPS)
  \* (a narrow Add under another name of a file that is already watched: only if ALIAS_OPS)
  /\ (all \/ ALIAS_OPS \/ Resolve(p) = NoIno \/ PathWd(p) # {} \/ WdOfIno(Resolve(p)) = {})
  /\ LET i == Resolve(p) IN
     IF i = NoIno \/ i \notin alive THEN UNCHANGED <<marks, nextWd, wdTab, pathTab, panic, uw, kq, wantEnd>>      \* inotify_add_watch fails: nothing changes
     ELSE
     LET have    == PathWd(p)                                  \* wd, ok := w.path[path]
         ok      == have # {}
         oldwd   == IF ok THEN CHOOSE w \in have : TRUE ELSE 0
         existing == ok /\ WdPath(oldwd) # {}                  \* existing = w.wd[wd]  (may be nil although ok: dangling key)
         kwd     == IF WdOfIno(i) # {} THEN CHOOSE w \in WdOfIno(i) : TRUE ELSE nextWd       \* the kernel returns the mark's wd, or a new one
         newMark == WdOfIno(i) = {}
         \* register: if e, ok := w.watches.wd[wd]; ok { return e }  -- the file is already watched (maybe under another path)
         known   == WdPath(kwd) # {}
         updPath == IF known THEN CHOOSE q \in WdPath(kwd) : TRUE ELSE p
         release == FIX_REPOINT /\ existing /\ oldwd # kwd          \* fix: inotify_rm_watch(old wd)
         \* flags |= existing.flags | IN_MASK_ADD  (existing: found by PATH); the kernel adds to the mask or replaces it
         flEnd   == all \/ (existing /\ WdFl(oldwd))
         maskAdd == existing /\ MASK_ADD
         marks1  == (IF newMark THEN marks \cup {[wd |-> kwd, ino |-> i, end |-> flEnd]}
                     ELSE {IF m.wd = kwd THEN [m EXCEPT !.end = IF maskAdd THEN @ \/ flEnd ELSE flEnd] ELSE m : m \in marks})
     IN /\ marks' = IF release THEN {m \in marks1 : m.wd # oldwd} ELSE marks1
        /\ kq' = IF release /\ \E m \in marks1 : m.wd = oldwd THEN Q(kq, <<[wd |-> oldwd, kind |-> "ignored"]>>) ELSE kq
        /\ nextWd' = IF newMark THEN nextWd + 1 ELSE nextWd
        \* updatePath: w.wd[upd.wd] = upd; w.path[upd.path] = upd.wd; if upd.wd != wd { delete(w.wd, wd) [; fix: delete(w.path, path) if another path's entry] }
        \* (the recorded flags are refreshed only when a row is written: the early return for a known wd leaves them as they were)
        /\ LET wd1 == IF known THEN wdTab ELSE {r \in wdTab : r.wd # kwd} \cup {[wd |-> kwd, path |-> updPath, fl |-> flEnd]}
               \* existing.wd = wd (in place): the entry of `path` now lives under the new wd
               wd2 == IF ok /\ oldwd # kwd THEN {r \in wd1 : r.wd # oldwd} ELSE wd1
               pt1 == {r \in pathTab : r.path # updPath} \cup {[path |-> updPath, wd |-> kwd]}
               pt2 == IF FIX_REPOINT /\ ok /\ oldwd # kwd /\ updPath # p THEN {r \in pt1 : r.path # p} ELSE pt1
           IN wdTab' = wd2 /\ pathTab' = pt2
        /\ panic' = panic
        /\ wantEnd' = IF all THEN wantEnd \cup {updPath} ELSE IF known THEN wantEnd ELSE wantEnd \ {updPath}
        \* the ideal: same file already watched -> nothing; listed path naming another file -> its watch moves; else new watch
        /\ uw' = IF \E q \in DOMAIN uw : uw[q] = i THEN (IF p \in DOMAIN uw /\ uw[p] # i THEN Without(uw, {p}) ELSE uw)
                 ELSE [q \in (DOMAIN uw) \cup {p} |-> IF q = p THEN i ELSE uw[q]]
  /\ UNCHANGED <<name, ltgt, alive, nextIno, away>>

\* Remove(p): removePath + inotify_rm_watch
Remove(p) ==
  /\ steps < MaxSteps /\ ~panic /\ steps' = steps + 1
  /\ LET have == PathWd(p) IN
     IF have = {} THEN UNCHANGED <<marks, kq, wdTab, pathTab, panic, uw, wantEnd>>           \* ErrNonExistentWatch
     ELSE LET wd == CHOOSE w \in have : TRUE IN
          IF WdPath(wd) = {}
          THEN panic' = TRUE /\ UNCHANGED <<marks, kq, wdTab, pathTab, uw, wantEnd>>         \* watch := w.wd[wd]; watch.recurse  -- nil dereference
          ELSE /\ pathTab' = {r \in pathTab : r.path # p}
               /\ wdTab' = {r \in wdTab : r.wd # wd}
               /\ marks' = {m \in marks : m.wd # wd}
               /\ kq' = IF \E m \in marks : m.wd = wd THEN Q(kq, <<[wd |-> wd, kind |-> "ignored"]>>) ELSE kq
               /\ panic' = panic /\ wantEnd' = wantEnd \ {p}
               /\ uw' = Without(uw, {p})
  /\ UNCHANGED <<name, ltgt, alive, nextIno, nextWd, away>>

---------------------------------------------------------------------------
\* File system
Retarget == /\ steps < MaxSteps /\ steps' = steps + 1
            /\ ltgt' = IF ltgt = "A" THEN "B" ELSE "A"
            /\ UNCHANGED <<name, alive, nextIno, marks, nextWd, kq, wdTab, pathTab, panic, uw, wantEnd, away>>
\* unlink p (p in {A, B, H}): the inode dies with its last name -> DELETE_SELF, IGNORED, mark dropped
Unlink(p) ==
  /\ steps < MaxSteps /\ p \in {"A", "B", "H"} /\ name[p] # NoIno /\ steps' = steps + 1
  /\ LET i == name[p]
         last == i \notin away /\ \A q \in Paths \ {p} : name[q] # i
         ws == WdOfIno(i) IN
     /\ name' = [name EXCEPT ![p] = NoIno]
     /\ IF last THEN /\ alive' = alive \ {i}
                     /\ marks' = {m \in marks : m.ino # i}
                     /\ kq' = IF ws = {} THEN kq ELSE LET w == CHOOSE w \in ws : TRUE IN
                                Q(kq, (IF EndOf(i) THEN <<[wd |-> w, kind |-> "delself"]>> ELSE <<>>) \o <<[wd |-> w, kind |-> "ignored"]>>)
                     /\ uw' = uw             \* the ideal follows when the record is processed (see Drain invariant)
                ELSE UNCHANGED <<alive, marks, kq, uw>>
  /\ UNCHANGED <<ltgt, nextIno, nextWd, wdTab, pathTab, panic, wantEnd, away>>
\* mv p <somewhere unwatched> (p in {A, B}): the inode lives on under a name nobody watches -> MOVE_SELF for its mark
MoveAway(p) ==
  /\ steps < MaxSteps /\ p \in {"A", "B"} /\ name[p] # NoIno /\ steps' = steps + 1
  /\ LET i == name[p]
         ws == WdOfIno(i) IN
     /\ name' = [name EXCEPT ![p] = NoIno]
     /\ kq' = IF ws = {} \/ ~EndOf(i) THEN kq ELSE Q(kq, <<[wd |-> CHOOSE w \in ws : TRUE, kind |-> "moveself"]>>)
     /\ away' = away \cup {i}
  /\ UNCHANGED <<ltgt, alive, nextIno, marks, nextWd, wdTab, pathTab, panic, uw, wantEnd>>
\* create a new file under a free name
Create(p) ==
  /\ steps < MaxSteps /\ p \in {"A", "B"} /\ name[p] = NoIno /\ nextIno <= MaxIno /\ steps' = steps + 1
  /\ name' = [name EXCEPT ![p] = nextIno] /\ alive' = alive \cup {nextIno} /\ nextIno' = nextIno + 1
  /\ UNCHANGED <<ltgt, marks, nextWd, kq, wdTab, pathTab, panic, uw, wantEnd, away>>

\* Reader: one record, under the lock (table part of handleEvent)
Handle ==
  /\ kq # <<>> /\ ~panic
  /\ LET r == Head(kq)
         paths == WdPath(r.wd) IN
     /\ IF paths = {} THEN UNCHANGED <<wdTab, pathTab, uw, marks>> /\ kq' = Tail(kq)          \* watch == nil: skip
        ELSE LET q == CHOOSE q \in paths : TRUE IN
             IF r.kind = "moveself"
             THEN \* w.remove(watch.path): removePath looks the PATH up again, then inotify_rm_watch on what it found
                  LET have == PathWd(q) IN
                  IF have = {} THEN UNCHANGED <<wdTab, pathTab, uw, marks>> /\ kq' = Tail(kq)
                  ELSE LET wd == CHOOSE w \in have : TRUE IN
                       /\ pathTab' = {x \in pathTab : x.path # q}
                       /\ wdTab' = {x \in wdTab : x.wd # wd}
                       /\ marks' = {m \in marks : m.wd # wd}
                       /\ kq' = IF \E m \in marks : m.wd = wd THEN Q(Tail(kq), <<[wd |-> wd, kind |-> "ignored"]>>) ELSE Tail(kq)
                       \* the ideal: the watch on q ends, unless q was re-added for another file in the meantime
                       /\ uw' = IF q \in DOMAIN uw /\ \E m \in marks : m.wd = r.wd /\ m.ino = uw[q] THEN Without(uw, {q}) ELSE uw
             ELSE                                                            \* w.watches.remove(watch): delete(w.path, watch.path); delete(w.wd, watch.wd)
             /\ wdTab' = {x \in wdTab : x.wd # r.wd}
             /\ pathTab' = {x \in pathTab : ~(x.path = q /\ x.wd = r.wd)}        \* (since D13: only if the key still belongs to this watch)
             /\ uw' = IF r.kind = "delself" /\ q \in DOMAIN uw /\ uw[q] \notin alive THEN Without(uw, {q}) ELSE uw
             /\ UNCHANGED marks /\ kq' = Tail(kq)
  /\ wantEnd' = wantEnd \cap {x.path : x \in pathTab'}
  /\ UNCHANGED <<name, ltgt, alive, nextIno, nextWd, panic, away, steps>>

Next == (\E p \in Paths : Add(p, TRUE) \/ Add(p, FALSE) \/ Remove(p) \/ Unlink(p) \/ Create(p) \/ MoveAway(p)) \/ Retarget \/ Handle
Spec == Init /\ [][Next]_vars

---------------------------------------------------------------------------
NoPanic == ~panic                                                              \* C04: Remove never panics
\* C12/C04: a path key always leads to a watch (no dangling entry), one row per watch
TablesAgree == /\ \A r \in pathTab : \E x \in wdTab : x.wd = r.wd /\ x.path = r.path
               /\ \A x \in wdTab : \E r \in pathTab : r.wd = x.wd /\ r.path = x.path
Quiet == kq = <<>>
\* C12: once the stream is quiescent, the kernel's marks are exactly those backing the listed paths
MarksBacked == Quiet => {m.wd : m \in marks} = {x.wd : x \in wdTab}
\* C04/C09: ... and WatchList is the ideal watch set restricted to files that still exist
\* C09 / C15: what any Add of a listed path asked for stays subscribed - in particular the bits that end the watch when the
\* path is renamed or deleted (the kernel mask is added to, never narrowed, by a later Add)
MaskOK == Quiet => \A r \in pathTab : r.path \in wantEnd => \E m \in marks : m.wd = r.wd /\ m.end
ListOK == Quiet => {r.path : r \in pathTab} = {q \in DOMAIN uw : uw[q] \in alive}
=============================================================================

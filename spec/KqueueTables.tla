---------------------------- MODULE KqueueTables ----------------------------
(***************************************************************************)
(* Code-shaped model of the bookkeeping of the kqueue backend              *)
(* (backend_kqueue.go): the tables wd, path, byDir (derived), seen, byUser,*)
(* the descriptors it opens, and the knotes with their accumulated notes.  *)
(* One watched directory D with entries over Names; the user may add D     *)
(* under the spellings "D" and "D/" and the single file "D/x"; entries are *)
(* created, removed and renamed; Add, Remove, Close and the reader's       *)
(* handling of one kevent are atomic steps.                                *)
(*                                                                         *)
(* Checked for all histories up to MaxSteps (C17, C18): the open           *)
(* descriptors are exactly those in the wd table; WatchList shows only     *)
(* what the user added; when nothing is watched no descriptor and no table *)
(* row is left; after Close nothing is open; a new entry is reported       *)
(* Create exactly once per incarnation and never for entries that existed  *)
(* when the directory was added.                                           *)
(* FIX_CLOSE / FIX_BYUSER describe the two repaired defects.               *)
(* Descriptors follow the vnode they were opened on (vn = incarnation), so *)
(* an entry renamed inside D keeps raising notes on the descriptor that    *)
(* the tables still know under the old name until the reader handles the   *)
(* rename.  Covered (C18): when the stream is drained every entry of a     *)
(* watched D has a descriptor on its current vnode under its current name. *)
(* USER_RENAMES admits renames inside D; RECHECK_ON_RENAME is the repair   *)
(* D9 ("renamed name re-used", see DESIGN): after a Rename the reader      *)
(* looks at the old name again, as the Remove branch always did.           *)
(***************************************************************************)
EXTENDS Integers, Sequences, FiniteSets, TLC, SequencesExt

CONSTANTS Names, MaxSteps, FIX_CLOSE, FIX_BYUSER,
          USER_NESTS,            \* the user may watch both D and its entry D/x (they share one descriptor: known finding)
          USER_RENAMES,          \* entries may be renamed inside D (onto a free or a used name)
          RECHECK_ON_RENAME,     \* D9 repaired: the reader re-checks the old name after a Rename as it does after a Remove
          ENTRIES_ARE_DIRS,      \* the entries of D are directories themselves (nothing is written "to" them)
          RECHECK_DIRS,          \* D16 repaired: the look-again after Remove / Rename is made for entries that are directories too
          USER_REMOVES_ENTRIES   \* the user may call Remove on an entry of a watched directory that was never added (known finding, see DESIGN)

VARIABLES present,    \* entry name -> incarnation number (0 = absent)
          wdT,        \* set of [fd, path, isDir, vn]  (vn: the vnode - incarnation - the descriptor was opened on; 0 for D)
          byUser,     \* set of spellings
          seen,       \* set of paths
          open,       \* descriptors opened by the backend
          nextFd,
          notes,      \* fd -> set of pending notes ("write", "delete", "rename", "attrib"); EV_CLEAR accumulation
          actq,       \* activation order of descriptors with pending notes
          closed,     \* the watcher was marked closed
          kqOpen,     \* kqueue + pipe descriptors
          creates,    \* ghost: set of <<name, incarnation>> for which Create was delivered; dup: a second Create was delivered
          dup,
          atAdd,      \* ghost: entries (name, incarnation) that existed when D was last added
          userAdded,  \* ghost: cleaned paths the user added and did not remove
          inc,        \* next incarnation number
          steps
vars == <<present, wdT, byUser, seen, open, nextFd, notes, actq, closed, kqOpen, creates, dup, atAdd, userAdded, inc, steps>>

Clean(sp) == IF sp = "D/" THEN "D" ELSE sp
EntryPath(n) == "D/" \o n
Spellings == {"D", "D/", "D/x"}

Init == /\ present = [n \in Names |-> IF n = "x" THEN 1 ELSE 0]
        /\ wdT = {} /\ byUser = {} /\ seen = {} /\ open = {} /\ nextFd = 1
        /\ notes = [f \in {} |-> {}] /\ actq = <<>> /\ closed = FALSE /\ kqOpen = TRUE
        /\ creates = {} /\ dup = FALSE /\ atAdd = {} /\ userAdded = {} /\ inc = 2 /\ steps = 0

FdOf(p) == {r.fd : r \in {r \in wdT : r.path = p}}
VnFds(v) == {r.fd : r \in {r \in wdT : r.vn = v /\ ~r.isDir}}     \* the descriptors open on vnode v
Watching(p) == FdOf(p) # {}
Existing == {n \in Names : present[n] > 0}

\* addWatch for paths not yet watched: open, register, table rows (one path per step via a fold over names)
RECURSIVE WatchAll(_, _, _, _)
\* returns [wd, open, next, seen] after internalWatch of every name in S
WatchAll(S, wd, op, nx) ==
  IF S = {} THEN [wd |-> wd, open |-> op, next |-> nx]
  ELSE LET n == CHOOSE n \in S : TRUE
           p == EntryPath(n)
           have == \E r \in wd : r.path = p IN
       IF have THEN WatchAll(S \ {n}, wd, op, nx)
       ELSE WatchAll(S \ {n}, wd \cup {[fd |-> nx, path |-> p, isDir |-> FALSE, vn |-> present[n]]}, op \cup {nx}, nx + 1)

Tick == steps < MaxSteps /\ steps' = steps + 1

Add(sp) ==
  /\ Tick /\ ~closed
  /\ (USER_NESTS \/ (sp = "D/x" /\ "D" \notin userAdded) \/ (sp # "D/x" /\ "D/x" \notin userAdded))
  /\ IF sp = "D/x"
     THEN /\ present["x"] > 0
          /\ LET r == WatchAll({"x"}, wdT, open, nextFd) IN wdT' = r.wd /\ open' = r.open /\ nextFd' = r.next
          /\ byUser' = byUser \cup {"D/x"} /\ userAdded' = userAdded \cup {"D/x"}
          /\ UNCHANGED <<seen, atAdd, creates>>
     ELSE /\ LET hadD == Watching("D")
                 wd1 == IF hadD THEN wdT ELSE wdT \cup {[fd |-> nextFd, path |-> "D", isDir |-> TRUE, vn |-> 0]}
                 op1 == IF hadD THEN open ELSE open \cup {nextFd}
                 nx1 == IF hadD THEN nextFd ELSE nextFd + 1
                 r == IF hadD THEN [wd |-> wd1, open |-> op1, next |-> nx1] ELSE WatchAll(Existing, wd1, op1, nx1) IN   \* watchDirectoryFiles
             /\ wdT' = r.wd /\ open' = r.open /\ nextFd' = r.next
             /\ seen' = IF hadD THEN seen ELSE seen \cup {EntryPath(n) : n \in Existing}
             /\ atAdd' = IF hadD THEN atAdd ELSE {<<n, present[n]>> : n \in Existing}
             /\ creates' = IF hadD THEN creates ELSE {}        \* a new watch on D starts a new account
          /\ byUser' = byUser \cup {IF FIX_BYUSER THEN Clean(sp) ELSE sp}
          /\ userAdded' = userAdded \cup {"D"}
  /\ UNCHANGED <<present, notes, actq, closed, kqOpen, dup, inc>>

\* remove(name, unwatchFiles): close the descriptor, delete the rows; for a directory also its non-user entries
RemoveRows(p, wd, op, bu, sn, recurse) ==
  LET fds == {r.fd : r \in {r \in wd : r.path = p}}
      wd1 == {r \in wd : r.path # p}
      inner == IF recurse /\ p = "D" THEN {r \in wd1 : r.path # "D" /\ r.path \notin bu} ELSE {}       \* watchesInDir: not in byUser
  IN [wd |-> wd1 \ inner, open |-> (op \ fds) \ {r.fd : r \in inner}, byUser |-> bu \ {p}, seen |-> (sn \ {p}) \ {r.path : r \in inner}]

RemoveWatch(sp) ==
  /\ Tick /\ ~closed
  /\ (USER_REMOVES_ENTRIES \/ Clean(sp) \in userAdded \/ ~Watching(Clean(sp)))
  /\ LET p == Clean(sp) IN
     IF ~Watching(p) THEN UNCHANGED <<wdT, open, byUser, seen, notes, actq, userAdded>>          \* ErrNonExistentWatch
     ELSE LET r == RemoveRows(p, wdT, open, byUser, seen, TRUE) IN
          /\ wdT' = r.wd /\ open' = r.open /\ byUser' = r.byUser /\ seen' = r.seen
          /\ notes' = [f \in (DOMAIN notes) \cap r.open |-> notes[f]]
          /\ actq' = SelectSeq(actq, LAMBDA f : f \in r.open)
          /\ userAdded' = userAdded \ {p}
  /\ UNCHANGED <<present, nextFd, closed, kqOpen, creates, dup, atAdd, inc>>

Close ==
  /\ Tick /\ ~closed /\ closed' = TRUE /\ kqOpen' = FALSE
  /\ IF FIX_CLOSE THEN wdT' = {} /\ open' = {} /\ byUser' = {} /\ seen' = {} /\ notes' = [f \in {} |-> {}] /\ actq' = <<>>
                  ELSE UNCHANGED <<wdT, open, byUser, seen, notes, actq>>      \* Remove() returns at once on a closed watcher
  /\ userAdded' = {}
  /\ UNCHANGED <<present, nextFd, creates, dup, atAdd, inc>>

\* the kernel raises a note on every knote of the vnode
Raise(nt, aq, fds, note) ==
  [notes |-> [f \in (DOMAIN nt) \cup fds |-> (IF f \in DOMAIN nt THEN nt[f] ELSE {}) \cup (IF f \in fds THEN {note} ELSE {})],
   actq |-> aq \o SetToSeq({f \in fds : f \notin {aq[i] : i \in 1..Len(aq)}})]

FsCreate(n) == /\ Tick /\ present[n] = 0
               /\ present' = [present EXCEPT ![n] = inc] /\ inc' = inc + 1
               /\ LET r == Raise(notes, actq, FdOf("D"), "write") IN notes' = r.notes /\ actq' = r.actq
               /\ UNCHANGED <<wdT, byUser, seen, open, nextFd, closed, kqOpen, creates, dup, atAdd, userAdded>>
FsUnlink(n) == /\ Tick /\ present[n] > 0
               /\ present' = [present EXCEPT ![n] = 0]
               /\ LET r1 == Raise(notes, actq, FdOf("D"), "write")
                      r2 == Raise(r1.notes, r1.actq, VnFds(present[n]), "delete") IN notes' = r2.notes /\ actq' = r2.actq
               /\ UNCHANGED <<wdT, byUser, seen, open, nextFd, closed, kqOpen, creates, dup, atAdd, userAdded, inc>>
FsWrite(n)  == /\ Tick /\ present[n] > 0 /\ ~ENTRIES_ARE_DIRS
               /\ LET r == Raise(notes, actq, VnFds(present[n]), "write") IN notes' = r.notes /\ actq' = r.actq
               /\ UNCHANGED <<present, wdT, byUser, seen, open, nextFd, closed, kqOpen, creates, dup, atAdd, userAdded, inc>>
FsChmod(n)  == /\ Tick /\ present[n] > 0
               /\ LET r == Raise(notes, actq, VnFds(present[n]), "attrib") IN notes' = r.notes /\ actq' = r.actq
               /\ UNCHANGED <<present, wdT, byUser, seen, open, nextFd, closed, kqOpen, creates, dup, atAdd, userAdded, inc>>
\* mv D/n D/m: the directory first, then the moved vnode (rename), then the vnode that lost its name (delete)
FsRename(n, m) ==
               /\ USER_RENAMES /\ Tick /\ n # m /\ present[n] > 0
               /\ present' = [present EXCEPT ![m] = present[n], ![n] = 0]
               /\ LET r1 == Raise(notes, actq, FdOf("D"), "write")
                      r2 == Raise(r1.notes, r1.actq, VnFds(present[n]), "rename")
                      r3 == IF present[m] > 0 THEN Raise(r2.notes, r2.actq, VnFds(present[m]), "delete") ELSE r2
                  IN notes' = r3.notes /\ actq' = r3.actq
               \* the vnode arriving under the name m is a new entry of D as far as C18 is concerned (even if it once had that name)
               /\ creates' = creates \ {<<m, present[n]>>} /\ atAdd' = atAdd \ {<<m, present[n]>>}
               /\ UNCHANGED <<wdT, byUser, seen, open, nextFd, closed, kqOpen, dup, userAdded, inc>>

\* Reader: one kevent
Handle ==
  /\ actq # <<>> /\ ~closed
  /\ LET fd == Head(actq)
         fl == notes[fd]
         rows == {r \in wdT : r.fd = fd} IN
     IF rows = {} THEN actq' = Tail(actq) /\ notes' = [f \in (DOMAIN notes) \ {fd} |-> notes[f]]
                       /\ UNCHANGED <<wdT, byUser, seen, open, nextFd, creates, dup, userAdded>>
     ELSE LET row == CHOOSE r \in rows : TRUE IN
          IF "delete" \in fl \/ "rename" \in fl
          THEN \* Remove / Rename: w.remove(event.Name, false); markSeen(false); then the re-create check for files
               LET r == RemoveRows(row.path, wdT, open, byUser, seen, FALSE)
                   n == IF \E q \in Names : EntryPath(q) = row.path THEN CHOOSE q \in Names : EntryPath(q) = row.path ELSE ""
                   \* only after a Remove: os.Lstat(path) succeeds: sendCreateIfNew
                   \* (D9: also after a Rename, if the directory the entry lives in is watched)
                   \* (D16: for an entry that is a directory the code used to skip this altogether)
                   back == n # "" /\ ("delete" \in fl \/ (RECHECK_ON_RENAME /\ Watching("D"))) /\ present[n] > 0
                           /\ (ENTRIES_ARE_DIRS => (RECHECK_DIRS /\ Watching("D")))
                   w2 == IF back THEN WatchAll({n}, r.wd, r.open, nextFd) ELSE [wd |-> r.wd, open |-> r.open, next |-> nextFd] IN
               /\ wdT' = w2.wd /\ open' = w2.open /\ nextFd' = w2.next /\ byUser' = r.byUser
               /\ seen' = IF back THEN r.seen \cup {row.path} ELSE r.seen
               /\ creates' = IF back THEN creates \cup {<<n, present[n]>>} ELSE creates
               /\ dup' = (dup \/ (back /\ (<<n, present[n]>> \in creates \/ <<n, present[n]>> \in atAdd)))
               \* (a watched file that exists again under its name keeps being watched - the recorded kqueue expectation)
               /\ userAdded' = IF back THEN userAdded ELSE userAdded \ {row.path}
               /\ actq' = SelectSeq(Tail(actq), LAMBDA f : f \in w2.open)
               /\ notes' = [f \in ((DOMAIN notes) \ {fd}) \cap w2.open |-> notes[f]]
          ELSE IF row.isDir /\ "write" \in fl
          THEN \* dirChange: Create for every entry not seen before, then watch it
               LET new == {n \in Existing : EntryPath(n) \notin seen}
                   w2 == WatchAll(new, wdT, open, nextFd) IN
               /\ wdT' = w2.wd /\ open' = w2.open /\ nextFd' = w2.next
               /\ seen' = seen \cup {EntryPath(n) : n \in new}
               /\ creates' = creates \cup {<<n, present[n]>> : n \in new}
               /\ dup' = (dup \/ \E n \in new : <<n, present[n]>> \in creates \/ <<n, present[n]>> \in atAdd)
               /\ actq' = Tail(actq) /\ notes' = [f \in (DOMAIN notes) \ {fd} |-> notes[f]]
               /\ UNCHANGED <<byUser, userAdded>>
          ELSE actq' = Tail(actq) /\ notes' = [f \in (DOMAIN notes) \ {fd} |-> notes[f]]
               /\ UNCHANGED <<wdT, byUser, seen, open, nextFd, creates, dup, userAdded>>
  /\ UNCHANGED <<present, closed, kqOpen, atAdd, inc, steps>>

Next == (\E sp \in Spellings : Add(sp) \/ RemoveWatch(sp)) \/ Close \/ (\E n \in Names : FsCreate(n) \/ FsUnlink(n) \/ FsWrite(n) \/ FsChmod(n))
        \/ (\E n, m \in Names : FsRename(n, m)) \/ Handle
Spec == Init /\ [][Next]_vars

---------------------------------------------------------------------------
\* C17: every descriptor the backend opened is in the wd table and vice versa
FdsMatch == open = {r.fd : r \in wdT}
\* C17: WatchList (byUser) shows only what the user added, spelled as cleaned paths the user still watches
ListOK == ~closed => byUser \subseteq userAdded
\* C17: once everything has been removed no descriptor and no table row is left
AllGone == (~closed /\ userAdded = {} /\ actq = <<>>) => (open = {} /\ wdT = {} /\ byUser = {} /\ seen = {})
\* C17: Close releases every descriptor
Released == closed => (open = {} /\ ~kqOpen)
\* C18: Create exactly once per new entry, never for entries present when the directory was added
\* C18: with the stream drained, every entry of the watched directory is covered: a descriptor on its current vnode under its current name
Covered == (~closed /\ "D" \in userAdded /\ actq = <<>>) => \A n \in Existing : \E r \in wdT : r.path = EntryPath(n) /\ r.vn = present[n]
CreateOnce == ~dup          \* dup: a Create was delivered a second time, or for an entry that existed when D was added
=============================================================================

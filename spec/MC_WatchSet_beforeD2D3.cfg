SPECIFICATION Spec
CONSTANTS
  MaxSteps = 6
  MaxIno = 4
  FIX_REPOINT = FALSE
INVARIANTS NoPanic TablesAgree MarksBacked ListOK
CHECK_DEADLOCK FALSE

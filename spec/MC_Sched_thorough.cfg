SPECIFICATION Spec
CONSTANTS
  t1 = t1
  t2 = t2
  Threads <- MCThreads
  Cap = 1
  MaxFs = 4
  MaxQ = 2
  FIX_ERR = TRUE
  FIX_RACE = TRUE
  FIX_RDCLOSED = TRUE
VIEW View
INVARIANTS NoWaitOnConsumer CloseProtocol ResultsOK ErrsGenuine Released LockSane
CHECK_DEADLOCK FALSE

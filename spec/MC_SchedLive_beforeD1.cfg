SPECIFICATION FairSpec
CONSTANTS
  t1 = t1
  t2 = t2
  Threads <- MCThreads
  Cap = 0
  MaxFs = 2
  MaxQ = 2
  FIX_ERR = FALSE
  FIX_RACE = TRUE
  FIX_RDCLOSED = TRUE
PROPERTY Returns
CHECK_DEADLOCK FALSE

--------------------------- MODULE MC_WatchSetGen ---------------------------
(* Scenario generation from the bookkeeping model (spec -> code direction): every behaviour of InotifyTables *)
(* of GenSteps driver-visible steps, under maximal progress (the reader has caught up before the next call   *)
(* or file system operation), is printed as JSON together with the model's final table state.  The driver    *)
(* replays it on the real Watcher; InotifyTrace judges the trace and compares the observed tables with the   *)
(* model's (a difference is reported as MODEL-DRIFT).                                                        *)
EXTENDS InotifyTables, Json

CONSTANT GenSteps
VARIABLE hist
gvars == <<vars, hist>>

GInit == Init /\ hist = <<>>
Lbl(l) == hist' = Append(hist, l)
GNext == \/ /\ kq # <<>> /\ Handle /\ UNCHANGED hist                                   \* internal steps first
         \/ /\ kq = <<>> /\ steps < GenSteps
            /\ \/ \E p \in Paths : \/ Add(p, TRUE) /\ Lbl(<<"add", p>>)
                                   \/ Remove(p) /\ Lbl(<<"remove", p>>)
                                   \/ Unlink(p) /\ Lbl(<<"unlink", p>>)
                                   \/ MoveAway(p) /\ Lbl(<<"moveaway", p>>)
                                   \/ Create(p) /\ Lbl(<<"create", p>>)
               \/ Retarget /\ Lbl(<<"retarget", ltgt'>>)
GSpec == GInit /\ [][GNext]_gvars

\* print every complete, quiescent behaviour once
Emit == (steps = GenSteps /\ kq = <<>> /\ ~panic) =>
          PrintT(<<"SCN", ToJson([hist |-> hist, wl |-> {r.path : r \in pathTab}, nmarks |-> Cardinality(marks),
                                   nwd |-> Cardinality(wdTab), npath |-> Cardinality(pathTab)])>>)
=============================================================================

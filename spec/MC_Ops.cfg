SPECIFICATION Spec

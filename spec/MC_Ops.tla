------------------------------- MODULE MC_Ops -------------------------------
(* Design-level theorems about the tables of Ops.tla, checked by TLC over all inputs:       *)
(*  - union homomorphism (a combination of native flags yields the union of its parts;      *)
(*    kqueue alone dropping Write when Remove is present)                                    *)
(*  - the request table observes every requested operation and requests nothing unrelated   *)
(*  - Has = non-empty intersection; OpString injective on defined bits, blind to others     *)
EXTENDS Ops, TLC, Bitwise

VARIABLE x
Init == x = 0
Next == x' = x
Spec == Init /\ [][Next]_x

Bits12 == {2^k : k \in 0..11}
Union(F(_), m) == LET parts == {b \in Bits12 : HasBit(m, b)} IN
                  \* OR over the parts
                  LET RECURSIVE OrAll(_) OrAll(S) == IF S = {} THEN 0 ELSE LET b == CHOOSE b \in S : TRUE IN F(b) | OrAll(S \ {b}) IN OrAll(parts)

InoHom  == \A m \in 0..4095 : InotifyOpOf(m) = Union(InotifyOpOf, m)
InoHouse == \A m \in 0..4095 : \A h \in {IN_IGNORED, IN_UNMOUNT, IN_Q_OVERFLOW, IN_ISDIR} : InotifyOpOf(m + h) = InotifyOpOf(m)
WinHom  == \A m \in 0..4095 : WindowsOpOf(m) = Union(WindowsOpOf, m) /\ ~HasBit(WindowsOpOf(m), OpChmod)
KqHom   == \A m \in 0..127 : KqueueOpOf(m) = (IF HasBit(m, NOTE_DELETE) THEN Union(KqueueOpOf, m) - (Union(KqueueOpOf, m) & OpWrite)
                                                                           ELSE Union(KqueueOpOf, m))
\* requested ops: every requested operation has a requested native flag that maps to it (observable), and every
\* requested native flag maps only into requested operations (nothing unrelated)
InotifyRequest1(o) == InotifyRequest(o)
\* (the new-name half of a rename, IN_MOVED_TO, is needed for Rename although it is reported as Create)
ReqExact == \A ops \in 0..511 :
              LET req == InotifyRequest(ops) IN
              /\ \A o \in {2^k : k \in 0..8} : HasBit(ops, o) => \E b \in Bits12 : HasBit(req, b) /\ HasBit(InotifyOpOf(b), o)
              /\ \A b \in Bits12 : HasBit(req, b) => \/ (InotifyOpOf(b) & ops) # 0
                                                     \/ (b = IN_MOVED_TO /\ HasBit(ops, OpRename))
              /\ req = Union(InotifyRequest1, ops % 512)
KqSubOK == /\ \A o \in {OpWrite, OpRemove, OpRename, OpChmod} : \E b \in {2^k : k \in 0..6} : HasBit(KqueueSubscription, b) /\ HasBit(KqueueOpOf(b), o)
           /\ \A b \in {2^k : k \in 0..6} : HasBit(KqueueSubscription, b) => KqueueOpOf(b) # 0
HasOK   == \A o \in 0..511, h \in 0..511 : Has(o, h) = ((o & h) # 0)
StrInj  == /\ \A a \in 0..511, b \in 0..511 : OpString(a) = OpString(b) => a = b
           /\ \A a \in 0..511 : OpString(a + 512) = OpString(a) /\ OpString(a + 65536) = OpString(a)
           /\ OpString(0) = "[no events]"

ASSUME InoHom
ASSUME InoHouse
ASSUME WinHom
ASSUME KqHom
ASSUME ReqExact
ASSUME KqSubOK
ASSUME HasOK
ASSUME StrInj
=============================================================================

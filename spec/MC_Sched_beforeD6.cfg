SPECIFICATION Spec
CONSTANTS
  t1 = t1
  t2 = t2
  Threads <- MCThreads
  Cap = 0
  MaxFs = 3
  MaxQ = 2
  FIX_ERR = TRUE
  FIX_RACE = FALSE
  FIX_RDCLOSED = TRUE
VIEW View
INVARIANTS NoWaitOnConsumer CloseProtocol ResultsOK ErrsGenuine Released LockSane
CHECK_DEADLOCK FALSE

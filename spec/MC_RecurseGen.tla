--------------------------- MODULE MC_RecurseGen ---------------------------
(* Scenario generation from the recursive-watch bookkeeping model (spec -> code direction): every behaviour of  *)
(* InotifyRecurse of GenSteps driver-visible steps under maximal progress (the reader has caught up before the   *)
(* next call or file system operation) is printed as JSON with the model's final tables.  inorun replays it on   *)
(* the real Watcher (identity name table: the string prefixes a / ab matter); InotifyTrace judges the trace and   *)
(* compares the observed tables with the model's (MODEL-DRIFT).  Histories with a lagging reader are covered by  *)
(* the recurse family and by the model itself.                                                                    *)
EXTENDS InotifyRecurse, Json

CONSTANT GenSteps
VARIABLE hist
gvars == <<vars, hist>>
GInit == Init /\ hist = <<>>
Lbl(x) == hist' = Append(hist, x)
GNext == \/ /\ kq # <<>> /\ Handle /\ UNCHANGED hist
         \/ /\ kq = <<>> /\ steps < GenSteps
            /\ \/ \E r \in Roots : (AddRec(r) /\ Lbl(<<"add", TruePath(r)>>)) \/ (RemoveRec(r) /\ Lbl(<<"remove", TruePath(r)>>))
               \/ \E p \in 1..MaxIno, n \in Comp : Mkdir(p, n) /\ Lbl(<<"mkdir", Append(TruePath(p), n)>>)
               \/ \E i \in 1..MaxIno : Rmdir(i) /\ Lbl(<<"rmdir", TruePath(i)>>)
               \/ \E p \in 1..MaxIno, n \in Comp : Touch(p, n) /\ Lbl(<<"touch", Append(TruePath(p), n)>>)
               \/ \E i, np \in 1..MaxIno, n \in Comp : Rename(i, np, n) /\ Lbl(<<"rename", TruePath(i), Append(TruePath(np), n)>>)
               \/ \E i, j \in 1..MaxIno : RenameOver(i, j) /\ Lbl(<<"rename2", TruePath(i), TruePath(j)>>)
GSpec == GInit /\ [][GNext]_gvars
Emit == (steps = GenSteps /\ kq = <<>>) =>
          PrintT(<<"SCN", ToJson([hist |-> hist, paths |-> {x.path : x \in pathT}, nwd |-> Cardinality(wdT), npath |-> Cardinality(pathT),
                                   nmarks |-> Cardinality(marks), bad |-> bad])>>)
=============================================================================

SPECIFICATION GSpec
CONSTANTS
  MaxSteps = 9
  MaxIno = 5
  GenSteps = 4
  FIX_REPOINT = TRUE
INVARIANT Emit
CHECK_DEADLOCK FALSE

SPECIFICATION GSpec
CONSTANTS
  Names <- MCNames
  MaxOps = 9
  GenSteps = 3
  Cap = 0
  RingSize = 10
  STRICT_REMOVE = FALSE
  WatchFile = TRUE
  HELD = TRUE
INVARIANT Emit
CHECK_DEADLOCK FALSE

SPECIFICATION Spec
CONSTANTS
  Names <- MCNames
  MaxSteps = 8
  FIX_CLOSE = TRUE
  USER_NESTS = FALSE
  USER_REMOVES_ENTRIES = FALSE
  FIX_BYUSER = TRUE
INVARIANTS FdsMatch ListOK AllGone Released CreateOnce
CHECK_DEADLOCK FALSE

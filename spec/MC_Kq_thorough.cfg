SPECIFICATION Spec
CONSTANTS
  Names <- MCNames
  MaxSteps = 9
  FIX_CLOSE = TRUE
  USER_NESTS = FALSE
  USER_REMOVES_ENTRIES = FALSE
  USER_RENAMES = TRUE
  RECHECK_ON_RENAME = TRUE
  ENTRIES_ARE_DIRS = FALSE
  RECHECK_DIRS = TRUE
  FIX_BYUSER = TRUE
INVARIANTS FdsMatch ListOK AllGone Released CreateOnce Covered
CHECK_DEADLOCK FALSE

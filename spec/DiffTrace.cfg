SPECIFICATION Spec
POSTCONDITION Accepted

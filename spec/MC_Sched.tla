------------------------------ MODULE MC_Sched ------------------------------
EXTENDS InotifySched
CONSTANTS t1, t2
MCThreads == {t1, t2}
\* keep the ghost history out of the fingerprint where it only records
View == <<kq, kmark, nfs, ovfd, gen, fnamed, falive, fdOpen, mu, done, doneResp, evq, evClosed, errClosed, tab, rd, th, closeRet, {errs[i] : i \in 1..Len(errs)}>>
=============================================================================

---- MODULE MC_FdReuse ----
EXTENDS FdReuse
MCWatchers == {"A", "B", "C"}
====

SPECIFICATION GSpec
CONSTANTS
  Names <- MCNames
  MaxOps = 9
  GenSteps = 3
  Cap = 0
  RingSize = 10
  WatchFile = TRUE
INVARIANT Emit
CHECK_DEADLOCK FALSE

-------------------------------- MODULE Diff --------------------------------
(***************************************************************************)
(* C20: what the test-support Diff / DiffMatch must return.  Texts are     *)
(* sequences of lines; a unified diff is a sequence of hunks               *)
(*   [hdr |-> <<s1, l1, s2, l2>>, body |-> << <<tag, line>>, ... >>]       *)
(* with tag " " (unchanged), "-" (only in the first text), "+" (only in    *)
(* the second).  This is an executable oracle; TLC is its evaluator.       *)
(***************************************************************************)
EXTENDS Integers, Sequences, FiniteSets

CONSTANTS Year, Month, Day      \* today (UTC) as sequences of digit characters, as logged by the driver

\* a text always has at least one (possibly empty) line
ToLines(s) == IF s = <<>> THEN <<"">> ELSE s

Tags(h, T) == SelectSeq(h.body, LAMBDA x : x[1] \in T)
Lines(sq)  == [i \in 1..Len(sq) |-> sq[i][2]]

\* the header counts agree with the body
HeaderAgrees(h) ==
  /\ h.hdr[2] = Len(Tags(h, {" ", "-"}))
  /\ h.hdr[4] = Len(Tags(h, {" ", "+"}))
  /\ h.hdr[2] + h.hdr[4] > 0

\* first line of the first text the hunk covers (a hunk of length 0 sits *after* line s)
Start1(h) == IF h.hdr[2] = 0 THEN h.hdr[1] + 1 ELSE h.hdr[1]
Start2(h) == IF h.hdr[4] = 0 THEN h.hdr[3] + 1 ELSE h.hdr[3]

RECURSIVE LeadCtx(_, _)
LeadCtx(body, i) == IF i > Len(body) \/ body[i][1] # " " THEN 0 ELSE 1 + LeadCtx(body, i + 1)
RECURSIVE TrailCtx(_, _)
TrailCtx(body, i) == IF i < 1 \/ body[i][1] # " " THEN 0 ELSE 1 + TrailCtx(body, i - 1)
ContextBound(h, n) == LeadCtx(h.body, 1) <= n /\ TrailCtx(h.body, Len(h.body)) <= n
HasChange(h) == \E i \in 1..Len(h.body) : h.body[i][1] # " "

\* hunks are ordered and do not overlap in the first text
Ordered(hs) == \A i \in 1..(Len(hs) - 1) : Start1(hs[i]) + hs[i].hdr[2] <= Start1(hs[i + 1])

\* Apply the hunks to A.  pos: next unread line of A; returns <<ok, result>>
RECURSIVE ApplyFrom(_, _, _, _)
ApplyFrom(A, hs, pos, acc) ==
  IF hs = <<>> THEN <<TRUE, acc \o SubSeq(A, pos, Len(A))>>
  ELSE LET h == Head(hs)
           s == Start1(h)
           old == Lines(Tags(h, {" ", "-"}))
           new == Lines(Tags(h, {" ", "+"}))
       IN IF s < pos \/ s + Len(old) - 1 > Len(A) \/ SubSeq(A, s, s + Len(old) - 1) # old
             \/ Len(acc) + (s - pos) + 1 # Start2(h)
          THEN <<FALSE, acc>>
          ELSE ApplyFrom(A, Tail(hs), s + Len(old), acc \o SubSeq(A, pos, s - 1) \o new)
Apply(A, hs) == ApplyFrom(A, hs, 1, <<>>)

\* the complete verdict on one evaluation of Diff(A, B)
DiffOK(r) ==
  LET A == ToLines(r.a) B == ToLines(r.b) IN
  /\ r.wellformed
  /\ r.empty <=> (A = B)
  /\ r.empty => r.hunks = <<>>
  /\ ~r.empty =>
       /\ r.hunks # <<>>
       /\ \A i \in 1..Len(r.hunks) : HeaderAgrees(r.hunks[i]) /\ ContextBound(r.hunks[i], 3) /\ HasChange(r.hunks[i])
       /\ Ordered(r.hunks)
       /\ Apply(A, r.hunks) = <<TRUE, B>>

---------------------------------------------------------------------------
(* DiffMatch: the text (a sequence of characters) matches the expectation  *)
(* (a sequence of tokens: single characters and %(...) placeholders).      *)
IsDigit(c) == c \in {"0", "1", "2", "3", "4", "5", "6", "7", "8", "9"}
NotNL(c)   == c # "\n"

\* repetition of a character class between lo and hi times (hi = -1: unbounded), then the rest
RECURSIVE MatchFrom(_, _, _, _, _)
RECURSIVE Rep(_, _, _, _, _, _, _, _)
Rep(pat, pi, text, ti, digits, lo, hi, n) ==
  \/ (n >= lo /\ MatchFrom(pat, pi + 1, text, ti, <<>>))
  \/ /\ (hi = -1 \/ n < hi) /\ ti <= Len(text)
     /\ (IF digits THEN IsDigit(text[ti]) ELSE NotNL(text[ti]))
     /\ Rep(pat, pi, text, ti + 1, digits, lo, hi, n + 1)

\* lit: pending literal characters of an expanded date placeholder
MatchFrom(pat, pi, text, ti, lit) ==
  IF lit # <<>> THEN ti <= Len(text) /\ text[ti] = Head(lit) /\ MatchFrom(pat, pi, text, ti + 1, Tail(lit))
  ELSE IF pi > Len(pat) THEN ti = Len(text) + 1
  ELSE LET t == pat[pi] IN
       CASE t = "%(ANY)"      -> Rep(pat, pi, text, ti, FALSE, 1, -1, 0)
         [] t = "%(ANY 2)"    -> Rep(pat, pi, text, ti, FALSE, 2, 2, 0)
         [] t = "%(ANY 1,2)"  -> Rep(pat, pi, text, ti, FALSE, 1, 2, 0)
         [] t = "%(ANY 2,)"   -> Rep(pat, pi, text, ti, FALSE, 2, -1, 0)
         [] t = "%(NUMBER)"   -> Rep(pat, pi, text, ti, TRUE, 1, -1, 0)
         [] t = "%(NUMBER 2)" -> Rep(pat, pi, text, ti, TRUE, 2, 2, 0)
         [] t = "%(YEAR)"     -> MatchFrom(pat, pi + 1, text, ti, Year)
         [] t = "%(MONTH)"    -> MatchFrom(pat, pi + 1, text, ti, Month)
         [] t = "%(DAY)"      -> MatchFrom(pat, pi + 1, text, ti, Day)
         [] OTHER             -> ti <= Len(text) /\ text[ti] = t /\ MatchFrom(pat, pi + 1, text, ti + 1, <<>>)

Matches(pat, text) == MatchFrom(pat, 1, text, 1, <<>>)
MatchOK(r) == r.empty <=> Matches(r.pat, r.text)
=============================================================================

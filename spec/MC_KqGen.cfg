SPECIFICATION GSpec
CONSTANTS
  Names <- MCNames
  MaxSteps = 9
  GenSteps = 4
  FIX_CLOSE = TRUE
  ENTRIES_ARE_DIRS = FALSE
  RECHECK_DIRS = TRUE
  FIX_BYUSER = TRUE
  USER_NESTS = FALSE
  USER_REMOVES_ENTRIES = FALSE
  USER_RENAMES = TRUE
  RECHECK_ON_RENAME = TRUE
INVARIANT Emit
CHECK_DEADLOCK FALSE

SPECIFICATION Spec
CONSTANTS
  MaxIno = 4
  MaxSteps = 5
  FIX_BOUNDARY = TRUE
  FIX_REKEY = TRUE
  FIX_MOVED = TRUE
  FIX_RMALL = FALSE
  FIX_PATHKEY = TRUE
  FIX_ONLYDIR = TRUE
  REUSE_EARLY = FALSE
  FIX_ENOENT = TRUE
INVARIANTS TrueNames NoSpuriousError RemoveWorks Covered OwnTreeOnly
CHECK_DEADLOCK FALSE

---------------------------- MODULE InotifySched ----------------------------
(***************************************************************************)
(* Code-shaped model of the concurrency protocol of the inotify backend    *)
(* (backend_inotify.go + shared.go): one action per critical section.      *)
(*                                                                         *)
(*   reader     readEvents: top / read / decode / overflow send / lock /   *)
(*              handleEvent / (error send) / event send / exit             *)
(*   API calls  Add, Remove, WatchList: closed-check, lock, critical       *)
(*              section with the syscall, unlock; Close: shared.close()    *)
(*              under mu, inotifyFile.Close(), wait for doneResp           *)
(*   channels   Events (capacity Cap; 0 = rendezvous), Errors (rendezvous),*)
(*              done, doneResp                                             *)
(*   kernel     one watched file: its mark, the queue (bounded, overflow   *)
(*              marker), chmod / rename / delete                           *)
(*   consumer   may receive from either channel at any time, or never      *)
(*                                                                         *)
(* TLC explores every interleaving for small constants and checks the      *)
(* properties C05, C06, C07 (results of racing calls), C10, C13 as         *)
(* invariants and, for "every call returns", as liveness under fairness    *)
(* of everything except the consumer and the file system.                  *)
(*                                                                         *)
(* The switches describe the defects that were found and repaired: with    *)
(* all switches TRUE the module models the current tree; the _Before       *)
(* configurations document that the model tells the difference.            *)
(***************************************************************************)
EXTENDS Integers, Sequences, FiniteSets, TLC

CONSTANTS Threads,      \* API goroutines
          Cap,          \* capacity of Events
          MaxFs,        \* number of file system operations
          MaxQ,         \* fs.inotify.max_queued_events
          FIX_ERR,      \* D1 repaired: EINVAL from the MOVE_SELF clean-up is not an error, errors are sent without the lock
          FIX_RACE,     \* D6 repaired: Add/Remove look at `done` again once they hold the lock
          FIX_RDCLOSED  \* D15 repaired: so does the reader in handleEvent, before it touches the descriptor

VARIABLES kq, kmark, nfs, ovfd,          \* kernel: queue of records [k, w], watch descriptor of the mark on the file (0: none), operations done, overflow marker queued
          gen,                           \* the next watch descriptor the kernel hands out
          fnamed, falive,                \* the watched path still names the file; the file (inode) still exists
          fdOpen,                        \* the inotify descriptor
          mu, done, doneResp,            \* mutex owner ("free" / "rd" / thread), closed channels
          evq, evClosed, errClosed,      \* Events buffer, channels closed by the reader
          tab,                           \* the watch descriptor under which the path is in the tables (0: not listed)
          rd,                            \* reader: [pc, buf, cur, out, err]
          th,                            \* thread -> [pc, op, res]
          errs, closeRet                 \* ghosts: errors delivered, some Close has returned
vars == <<kq, kmark, nfs, ovfd, gen, fnamed, falive, fdOpen, mu, done, doneResp, evq, evClosed, errClosed, tab, rd, th, errs, closeRet>>
fsx == <<fnamed, falive>>
R(k, w) == [k |-> k, w |-> w]

Ops == {"add", "remove", "watchlist", "close"}
Idle == [pc |-> "idle", op |-> "none", res |-> "none"]

Init == /\ kq = <<>> /\ kmark = 0 /\ gen = 1 /\ nfs = 0 /\ ovfd = FALSE /\ fdOpen = TRUE /\ fnamed = TRUE /\ falive = TRUE
        /\ mu = "free" /\ done = FALSE /\ doneResp = FALSE
        /\ evq = <<>> /\ evClosed = FALSE /\ errClosed = FALSE /\ tab = 0
        /\ rd = [pc |-> "top", buf |-> <<>>, cur |-> [k |-> "none", w |-> 0], out |-> "none", err |-> "none"]
        /\ th = [t \in Threads |-> Idle] /\ errs = <<>> /\ closeRet = FALSE

---------------------------------------------------------------------------
\* Kernel / file system
Enq(q, r) == IF Len(q) < MaxQ THEN Append(q, r) ELSE q
\* chmod reaches the file through any name it has; a record only if the file is watched
FsChmod == /\ nfs < MaxFs /\ falive /\ nfs' = nfs + 1
           /\ IF ~(fdOpen /\ kmark # 0) THEN UNCHANGED <<kq, ovfd>>
              ELSE IF Len(kq) < MaxQ THEN kq' = Append(kq, R("ev", kmark)) /\ UNCHANGED ovfd
              ELSE IF ~ovfd THEN kq' = Append(kq, R("ovf", 0)) /\ ovfd' = TRUE      \* the marker is appended once, further records are dropped
              ELSE UNCHANGED <<kq, ovfd>>
           /\ UNCHANGED <<kmark, gen, fnamed, falive, fdOpen, mu, done, doneResp, evq, evClosed, errClosed, tab, rd, th, errs, closeRet>>
\* mv path elsewhere: the file lives on under a name nobody uses here
FsMove  == /\ nfs < MaxFs /\ fnamed /\ nfs' = nfs + 1 /\ fnamed' = FALSE
           /\ kq' = IF fdOpen /\ kmark # 0 THEN Enq(kq, R("moveself", kmark)) ELSE kq
           /\ UNCHANGED <<kmark, gen, ovfd, falive, fdOpen, mu, done, doneResp, evq, evClosed, errClosed, tab, rd, th, errs, closeRet>>
\* rm path (by its name, or - after a move - by the other name): the link count drops (IN_ATTRIB), then the inode goes
FsDelete == /\ nfs < MaxFs /\ falive /\ nfs' = nfs + 1 /\ fnamed' = FALSE /\ falive' = FALSE
            /\ IF fdOpen /\ kmark # 0
               THEN kq' = Enq(Enq(Enq(kq, R("ev", kmark)), R("delself", kmark)), R("ignored", kmark)) /\ kmark' = 0     \* the kernel drops the mark itself
               ELSE UNCHANGED <<kq, kmark>>
            /\ UNCHANGED <<gen, ovfd, fdOpen, mu, done, doneResp, evq, evClosed, errClosed, tab, rd, th, errs, closeRet>>
Fs == FsChmod \/ FsMove \/ FsDelete

---------------------------------------------------------------------------
\* Reader goroutine (readEvents / handleEvent / sendEvent / sendError)
RdTop == /\ rd.pc = "top"
         /\ rd' = [rd EXCEPT !.pc = IF done THEN "exit" ELSE "read"]
         /\ UNCHANGED <<kq, kmark, nfs, ovfd, fdOpen, mu, done, doneResp, evq, evClosed, errClosed, tab, th, errs, closeRet>>
\* a read returns any non-empty prefix of the queue (every batching); it fails once the file is closed
RdRead == /\ rd.pc = "read"
          /\ \/ /\ ~fdOpen /\ rd' = [rd EXCEPT !.pc = "exit"] /\ UNCHANGED <<kq, ovfd>>
             \/ /\ fdOpen /\ kq # <<>>
                /\ \E k \in 1..Len(kq) : /\ rd' = [rd EXCEPT !.pc = "decode", !.buf = SubSeq(kq, 1, k)]
                                         /\ kq' = SubSeq(kq, k + 1, Len(kq))
                /\ ovfd' = (ovfd /\ \E i \in 1..Len(kq') : kq'[i].k = "ovf")
          /\ UNCHANGED <<kmark, nfs, fdOpen, mu, done, doneResp, evq, evClosed, errClosed, tab, th, errs, closeRet>>
RdDecode == /\ rd.pc = "decode"
            /\ rd' = IF rd.buf = <<>> THEN [rd EXCEPT !.pc = "top"]
                     ELSE [rd EXCEPT !.cur = Head(rd.buf), !.buf = Tail(rd.buf),
                                     !.pc = IF Head(rd.buf).k = "ovf" THEN "ovfSend" ELSE "lock"]
            /\ UNCHANGED <<kq, kmark, nfs, ovfd, fdOpen, mu, done, doneResp, evq, evClosed, errClosed, tab, th, errs, closeRet>>
\* sendError(ErrEventOverflow): select { <-done ; Errors <- err }  -- the receive half is the consumer's RecvErr
RdSendAbort == /\ rd.pc \in {"ovfSend", "errSend", "evSend"} /\ done
               /\ rd' = [rd EXCEPT !.pc = "exit"]
               /\ mu' = IF mu = "rd" THEN "free" ELSE mu                       \* deferred Unlock
               /\ UNCHANGED <<kq, kmark, nfs, ovfd, fdOpen, done, doneResp, evq, evClosed, errClosed, tab, th, errs, closeRet>>
RdLock == /\ rd.pc = "lock" /\ mu = "free"
          /\ mu' = "rd" /\ rd' = [rd EXCEPT !.pc = "handle"]
          /\ UNCHANGED <<kq, kmark, nfs, ovfd, fdOpen, done, doneResp, evq, evClosed, errClosed, tab, th, errs, closeRet>>
\* handleEvent, under the lock
RdHandle ==
  /\ rd.pc = "handle" /\ mu = "rd"
  /\ LET c == rd.cur IN
     CASE FIX_RDCLOSED /\ done -> \* Close() was called since the record was read: give up (deferred Unlock)
            /\ rd' = [rd EXCEPT !.pc = "exit", !.out = "none"] /\ mu' = "free" /\ UNCHANGED <<tab, kmark, kq>>
       [] c.k = "ovf" ->          \* wd -1: no watch
            /\ rd' = [rd EXCEPT !.pc = "decode", !.out = "none"] /\ mu' = "free" /\ UNCHANGED <<tab, kmark, kq>>
       [] tab = 0 \/ tab # c.w -> \* watch == nil: the record's descriptor is not (or no longer) in the tables: skip (#616)
            /\ rd' = [rd EXCEPT !.pc = "decode", !.out = "none"] /\ mu' = "free" /\ UNCHANGED <<tab, kmark, kq>>
       [] c.k = "ev" ->
            /\ rd' = [rd EXCEPT !.pc = "evSend", !.out = "chmod"] /\ mu' = "free" /\ UNCHANGED <<tab, kmark, kq>>
       [] c.k = "ignored" ->
            /\ tab' = 0 /\ rd' = [rd EXCEPT !.pc = "decode", !.out = "none"] /\ mu' = "free" /\ UNCHANGED <<kmark, kq>>
       [] c.k = "delself" ->
            /\ tab' = 0 /\ rd' = [rd EXCEPT !.pc = "evSend", !.out = "remove"] /\ mu' = "free" /\ UNCHANGED <<kmark, kq>>
       [] c.k = "moveself" ->     \* w.remove(watch.path): table entry and inotify_rm_watch
            /\ tab' = 0
            /\ IF fdOpen /\ kmark = tab
               THEN /\ kmark' = 0 /\ kq' = Enq(kq, R("ignored", tab))
                    /\ rd' = [rd EXCEPT !.pc = "evSend", !.out = "rename"] /\ mu' = "free"
               ELSE \* EINVAL (mark already gone) or EBADF (descriptor closed)
                    /\ UNCHANGED <<kmark, kq>>
                    /\ IF FIX_ERR /\ fdOpen
                       THEN rd' = [rd EXCEPT !.pc = "evSend", !.out = "rename"] /\ mu' = "free"          \* EINVAL is not an error
                       ELSE IF FIX_ERR
                       THEN rd' = [rd EXCEPT !.pc = "errSend", !.out = "rename", !.err = "EBADF"] /\ mu' = "free"   \* sent without the lock
                       ELSE rd' = [rd EXCEPT !.pc = "errSend", !.out = "rename", !.err = IF fdOpen THEN "EINVAL" ELSE "EBADF"] /\ mu' = "rd"
       [] OTHER -> FALSE
  /\ UNCHANGED <<nfs, ovfd, fdOpen, done, doneResp, evq, evClosed, errClosed, th, errs, closeRet>>
\* sendEvent into a buffered channel with room
RdBuffer == /\ rd.pc = "evSend" /\ Len(evq) < Cap
            /\ evq' = Append(evq, rd.out) /\ rd' = [rd EXCEPT !.pc = "decode", !.out = "none"]
            /\ UNCHANGED <<kq, kmark, nfs, ovfd, fdOpen, mu, done, doneResp, evClosed, errClosed, tab, th, errs, closeRet>>
\* the deferred function of readEvents: close(doneResp); close(Errors); close(Events) - three steps: a Close that was waiting
\* for doneResp may return before the two channels are closed ("closed promptly", C06 - not "closed when Close returns")
RdExit == /\ rd.pc \in {"exit", "exit2", "exit3"}
          /\ CASE rd.pc = "exit"  -> doneResp' = TRUE /\ rd' = [rd EXCEPT !.pc = "exit2"] /\ UNCHANGED <<errClosed, evClosed>>
               [] rd.pc = "exit2" -> errClosed' = TRUE /\ rd' = [rd EXCEPT !.pc = "exit3"] /\ UNCHANGED <<doneResp, evClosed>>
               [] rd.pc = "exit3" -> evClosed' = TRUE /\ rd' = [rd EXCEPT !.pc = "gone"] /\ UNCHANGED <<doneResp, errClosed>>
          /\ UNCHANGED <<kq, kmark, nfs, ovfd, fdOpen, mu, done, evq, tab, th, errs, closeRet>>
Exiting == rd.pc \in {"exit2", "exit3", "gone"}       \* the reader has left its loop for good: it sends nothing any more
Reader == (RdTop \/ RdRead \/ RdDecode \/ RdSendAbort \/ RdLock \/ RdHandle \/ RdBuffer \/ RdExit) /\ UNCHANGED <<fsx, gen>>

---------------------------------------------------------------------------
\* Consumer: the receiving half of the rendezvous, or a buffered receive
RecvEv == /\ \/ /\ evq # <<>> /\ evq' = Tail(evq) /\ UNCHANGED rd
             \/ /\ evq = <<>> /\ rd.pc = "evSend" /\ Cap = 0
                /\ rd' = [rd EXCEPT !.pc = "decode", !.out = "none"] /\ UNCHANGED evq
          /\ UNCHANGED <<kq, kmark, nfs, ovfd, fdOpen, mu, done, doneResp, evClosed, errClosed, tab, th, errs, closeRet>>
RecvErr == /\ rd.pc \in {"ovfSend", "errSend"}
           /\ errs' = Append(errs, IF rd.pc = "ovfSend" THEN "overflow" ELSE rd.err)
           /\ rd' = [rd EXCEPT !.pc = IF rd.pc = "ovfSend" THEN "lock" ELSE "evSend", !.err = "none"]
           /\ mu' = IF rd.pc = "errSend" /\ mu = "rd" THEN "free" ELSE mu
           /\ UNCHANGED <<kq, kmark, nfs, ovfd, fdOpen, done, doneResp, evq, evClosed, errClosed, tab, th, closeRet>>
Consumer == (RecvEv \/ RecvErr) /\ UNCHANGED <<fsx, gen>>

---------------------------------------------------------------------------
\* API goroutines
Set(t, f) == th' = [th EXCEPT ![t] = f]
Start(t) == /\ th[t].pc = "idle"
            /\ \E o \in Ops : Set(t, [pc |-> IF o = "close" THEN "c1" ELSE "check", op |-> o, res |-> "none"])
            /\ UNCHANGED <<kq, kmark, nfs, ovfd, fdOpen, mu, done, doneResp, evq, evClosed, errClosed, tab, rd, errs, closeRet>>
ClosedRes(o) == IF o = "add" THEN "ErrClosed" ELSE IF o = "remove" THEN "ok" ELSE "nil"
Check(t) == /\ th[t].pc = "check"
            /\ Set(t, IF done THEN [th[t] EXCEPT !.pc = "ret", !.res = ClosedRes(th[t].op)] ELSE [th[t] EXCEPT !.pc = "lockwait"])
            /\ UNCHANGED <<kq, kmark, nfs, ovfd, fdOpen, mu, done, doneResp, evq, evClosed, errClosed, tab, rd, errs, closeRet>>
Lock(t) == /\ th[t].pc = "lockwait" /\ mu = "free"
           /\ mu' = t /\ Set(t, [th[t] EXCEPT !.pc = "cs"])
           /\ UNCHANGED <<kq, kmark, nfs, ovfd, fdOpen, done, doneResp, evq, evClosed, errClosed, tab, rd, errs, closeRet>>
\* critical section including the syscall, then Unlock
Cs(t) ==
  /\ th[t].pc = "cs" /\ mu = t /\ mu' = "free"
  /\ LET o == th[t].op IN
     IF FIX_RACE /\ done /\ o \in {"add", "remove"}
     THEN Set(t, [th[t] EXCEPT !.pc = "ret", !.res = ClosedRes(o)]) /\ UNCHANGED <<tab, kmark, kq>>
     ELSE CASE o = "add" ->
                 IF ~fdOpen THEN /\ UNCHANGED <<kmark, tab, kq>> /\ Set(t, [th[t] EXCEPT !.pc = "ret", !.res = "EBADF"])
                 ELSE IF ~fnamed THEN /\ UNCHANGED <<kmark, tab, kq>> /\ Set(t, [th[t] EXCEPT !.pc = "ret", !.res = "ENOENT"])      \* the path names nothing
                 ELSE \* inotify_add_watch: the descriptor of the file's mark, a new one if it has none
                      /\ kmark' = (IF kmark # 0 THEN kmark ELSE gen) /\ tab' = kmark'
                      /\ UNCHANGED kq /\ Set(t, [th[t] EXCEPT !.pc = "ret", !.res = "ok"])
            [] o = "remove" ->
                 IF tab = 0 THEN UNCHANGED <<kmark, tab, kq>> /\ Set(t, [th[t] EXCEPT !.pc = "ret", !.res = "ErrNonExistentWatch"])
                 ELSE /\ tab' = 0
                      /\ IF ~fdOpen THEN UNCHANGED <<kmark, kq>> /\ Set(t, [th[t] EXCEPT !.pc = "ret", !.res = "EBADF"])
                         ELSE IF kmark = tab THEN kmark' = 0 /\ kq' = Enq(kq, R("ignored", tab)) /\ Set(t, [th[t] EXCEPT !.pc = "ret", !.res = "ok"])
                         ELSE UNCHANGED <<kmark, kq>> /\ Set(t, [th[t] EXCEPT !.pc = "ret", !.res = "EINVAL"])   \* lag window (TODO in remove())
            [] o = "watchlist" -> UNCHANGED <<kmark, tab, kq>> /\ Set(t, [th[t] EXCEPT !.pc = "ret", !.res = IF tab # 0 THEN "listed" ELSE "empty"])
            [] OTHER -> FALSE
  /\ gen' = IF th[t].op = "add" /\ ~(FIX_RACE /\ done) /\ fdOpen /\ fnamed /\ kmark = 0 THEN gen + 1 ELSE gen
  /\ UNCHANGED <<nfs, ovfd, fdOpen, done, doneResp, evq, evClosed, errClosed, rd, errs, closeRet>>
\* Close: shared.close() takes mu
C1(t) == /\ th[t].pc = "c1" /\ mu = "free"
         \* (a Close that finds the watcher closed returns at once; the one that does the work sets closeRet in C4)
         /\ IF done THEN Set(t, [th[t] EXCEPT !.pc = "ret", !.res = "ok"]) /\ UNCHANGED <<done, closeRet>>
                    ELSE done' = TRUE /\ Set(t, [th[t] EXCEPT !.pc = "c3"]) /\ UNCHANGED closeRet
         /\ UNCHANGED <<kq, kmark, nfs, ovfd, fdOpen, mu, doneResp, evq, evClosed, errClosed, tab, rd, errs>>
C3(t) == /\ th[t].pc = "c3"
         /\ fdOpen' = FALSE /\ kmark' = 0 /\ kq' = <<>>      \* the instance goes away with its descriptor
         /\ Set(t, [th[t] EXCEPT !.pc = "c4"])
         /\ UNCHANGED <<nfs, ovfd, mu, done, doneResp, evq, evClosed, errClosed, tab, rd, errs, closeRet>>
C4(t) == /\ th[t].pc = "c4" /\ doneResp
         /\ Set(t, [th[t] EXCEPT !.pc = "ret", !.res = "ok"]) /\ closeRet' = TRUE
         /\ UNCHANGED <<kq, kmark, nfs, ovfd, fdOpen, mu, done, doneResp, evq, evClosed, errClosed, tab, rd, errs>>
ApiProg(t) == (((Check(t) \/ Lock(t) \/ C1(t) \/ C3(t) \/ C4(t)) /\ UNCHANGED gen) \/ Cs(t)) /\ UNCHANGED fsx
Api(t) == (Start(t) /\ UNCHANGED <<fsx, gen>>) \/ ApiProg(t)

Internal == Reader \/ \E t \in Threads : Api(t)
Next == Internal \/ Consumer \/ Fs
Spec == Init /\ [][Next]_vars
\* "every call returns" needs progress of the library only - never of the consumer or of the file system
FairSpec == Spec /\ WF_vars(Reader) /\ \A t \in Threads : WF_vars(ApiProg(t))

---------------------------------------------------------------------------
Waiting(t) == th[t].pc \in {"lockwait", "c1", "c4"}
\* C05: a control call never waits on something only the consumer can resolve
NoWaitOnConsumer == \A t \in Threads : Waiting(t) => ENABLED Internal
\* C05 (liveness): every call that was started returns
Returns == \A t \in Threads : (th[t].pc # "idle") ~> (th[t].pc = "ret")
\* C06: once a Close has returned both channels are closed and the reader is gone; nothing is sent on a closed channel
CloseProtocol == /\ closeRet => Exiting
                 /\ (evClosed \/ errClosed) => Exiting
\* ... and both channels do get closed (liveness, needs progress of the reader only)
ClosedPromptly == closeRet ~> (evClosed /\ errClosed)
\* C06/C07: results of calls are those of some sequential order - no result of a syscall on the closed descriptor
ResultsOK == \A t \in Threads : th[t].res \notin {"EBADF"}
\* C10: Errors carries only genuine failures - in particular not the EBADF of a syscall the reader made on the descriptor
\* that Close had closed meanwhile (D15; when select{} picks the Errors case although done is closed, somebody receives it)
ErrsGenuine == \A i \in 1..Len(errs) : errs[i] \in {"overflow"}
\* C13: Close releases the descriptor, the kernel watches and the goroutine
Released == /\ closeRet => (~fdOpen /\ kmark = 0 /\ Exiting)
            /\ (evClosed /\ errClosed) => rd.pc = "gone"
\* the mutex is never left locked by someone who is gone
LockSane == mu \in {"free", "rd"} \cup Threads /\ (rd.pc = "gone" => mu # "rd")
=============================================================================

SPECIFICATION Spec
CONSTANTS
  t1 = t1
  t2 = t2
  t3 = t3
  Threads <- MCThreads
  LOCKED = FALSE
INVARIANT NoLeak
CHECK_DEADLOCK FALSE

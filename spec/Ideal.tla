------------------------------- MODULE Ideal -------------------------------
(***************************************************************************)
(* What a user of one fsnotify Watcher may rely on, as pure operators over *)
(* an abstract per-Watcher state `ws`.  The same operators judge           *)
(*   - traces recorded from the real code   (InotifyTrace.tla), and        *)
(*   - behaviours of the code-shaped model  (InotifyImpl.tla / MC_*.cfg).  *)
(*                                                                         *)
(* The state is driven by                                                  *)
(*   kernel records   ApplyRec   (what the kernel emitted for an inode)    *)
(*   API calls        IdealAdd / IdealRemove / CheckWL / IdealClose        *)
(*   consumer steps   RecvEv / RecvErr / Settle                            *)
(*   observations     CheckObs                                             *)
(* and every deviation of an observation from what the properties allow    *)
(* is appended to ws.bad as [props, cause]; `props` is the set of property *)
(* ids the deviation violates, `cause` a signature computed from the       *)
(* abstract state (used to tell a known finding from a new violation).     *)
(*                                                                         *)
(* Property-level, not implementation-level: where the statements allow    *)
(* several outcomes (lag between a kernel record being queued and the      *)
(* library having processed it; kernel tail-merging; records pending at a  *)
(* Remove / re-pointing Add / Close; queue overflow) the expected entry    *)
(* carries min = 0 or the watch entry is in state "ending" / "unsure".     *)
(***************************************************************************)
EXTENDS Integers, Sequences, FiniteSets, TLC, SequencesExt, Ops, Paths

EmptyFn == [x \in {} |-> 0]
NoRec   == [ino |-> "", m |-> 0, n |-> ""]
OvfMargin == 300        \* IGNORED records caused by the library itself are not in the shadow stream
ScanWindow == 3000      \* how far ahead of the head an event may match (only optional entries are skipped legitimately)

InitW(cap) ==
  [ uw      |-> EmptyFn,   \* ino -> [path, mask, st, how, endSeq, rec, root]
    exp     |-> <<>>,      \* expected events, in kernel order
    eh      |-> 0,         \* number of entries of exp already consumed
    mq      |-> <<>>,      \* indices (ascending) of the pending mandatory entries of exp
    bag     |-> <<>>,      \* expected events of operations made concurrently by several threads (order unknown)
    skipped |-> <<>>,      \* mandatory entries that were passed over (lost unless they show up later = reordered)
    last    |-> NoRec,     \* last record queued for this instance (kernel tail merge)
    ck      |-> EmptyFn,   \* rename cookie -> name of the Rename event
    ckseq   |-> EmptyFn,   \* rename cookie -> sequence number of its MOVED_FROM record
    fromSeqs |-> <<>>,     \* sequence numbers of the MOVED_FROM records this Watcher saw since the stream was last drained
    phase   |-> "open",    \* open | closing (Close called, not yet returned) | closed
    evc     |-> FALSE, errc |-> FALSE,
    nq      |-> 0,         \* records queued since the stream was last known to be drained
    ovf     |-> FALSE,     \* the kernel queue may have overflowed
    dropped |-> FALSE,     \* an entry queued under ovf was not delivered
    gotOvf  |-> 0,
    ovfFion |-> -1,        \* bytes in the kernel queue at the first observation after the overflow (queue full)
    room    |-> 0,         \* lower bound on the free slots of the kernel queue since then (from observed FIONREAD)
    readded |-> {},
    lastWL  |-> {}, wlValid |-> FALSE,    \* the last WatchList taken at quiescence since the last receive (unbuffered Watchers)
    wlSeq   |-> 0,         \* ... and how many kernel records had been queued when it was taken
    uoInos  |-> {},        \* watched inodes whose path was unlinked while something keeps them alive (no DELETE_SELF yet)
    recursive |-> FALSE,   \* a recursive watch was added (C19)        \* paths added again after their watch ended or was re-pointed
    cap     |-> cap,
    postClose |-> 0,       \* events received after Close returned
    gonePaths |-> {},      \* paths whose watch ended by deletion / rename and that were not added again
    flags   |-> {},
    prep    |-> {},        \* inodes whose removal a watched parent directory of this Watcher has reported (IN_DELETE for one of their names)
    prepAmb |-> FALSE,     \* the records being applied belong to several operations at once: which entry a parent reported is not known
    prepU   |-> {},        \* ... inodes that were watched when such records included a parent's IN_DELETE: reported or not - undetermined
    seenCk  |-> {},        \* cookies whose Rename event has been received
    lostCr  |-> {},        \* names whose Create was owed and never came (judged lost when the stream settled): nothing else of that incarnation may follow
    fog     |-> FALSE,     \* outcome no longer determined by the statements (see DESIGN): judge only crashes, blocking, leaks
    nontriv |-> {},        \* which non-trivial situations this watcher went through (evidence)
    bad     |-> <<>> ]

Bad(ws, props, cause) ==
  IF Len(ws.bad) >= 12 THEN ws
  ELSE [ws EXCEPT !.bad = Append(@, [props |-> props, cause |-> cause])]
Note(ws, tag) == [ws EXCEPT !.nontriv = @ \cup {tag}]

Live(ws)     == {i \in DOMAIN ws.uw : ws.uw[i].st = "live"}
ByPath(ws,P) == {i \in DOMAIN ws.uw : ws.uw[i].path = P}
PathsOf(ws,S)== {ws.uw[i].path : i \in S}
Without(f,S) == [x \in (DOMAIN f) \ S |-> f[x]]

OpName(o) == OpString(o)

\* Make every not yet received expectation that stems from the inodes in S optional.
Relax(ws, S) ==
  IF S = {} \/ ws.eh >= Len(ws.exp) THEN ws
  ELSE [ws EXCEPT !.exp = [k \in 1..Len(ws.exp) |->
            IF k > ws.eh /\ ws.exp[k].ino \in S /\ ws.exp[k].min = 1
            THEN [ws.exp[k] EXCEPT !.min = 0] ELSE ws.exp[k]],
                  !.mq = SelectSeq(@, LAMBDA q : ws.exp[q].ino \notin S)]
\* The Remove event of a deleted watched path is suppressed while its parent directory is listed (the
\* parent reports it).  When the parent leaves the list before the record is processed the event may appear.
Unsuppress(ws, P) ==
  IF ws.eh >= Len(ws.exp) THEN ws
  ELSE [ws EXCEPT !.exp = [k \in 1..Len(ws.exp) |->
            IF k > ws.eh /\ ws.exp[k].sup /\ Dir(ws.exp[k].name) = P
            THEN [ws.exp[k] EXCEPT !.sup = FALSE] ELSE ws.exp[k]]]

\* A Remove event for a watched path is suppressed when its parent directory is listed at the time the
\* record is processed: listing the parent while such a record is still pending makes it optional.
RelaxChildRemoves(ws, P) ==
  IF ws.eh >= Len(ws.exp) THEN ws
  ELSE [ws EXCEPT !.exp = [k \in 1..Len(ws.exp) |->
            IF k > ws.eh /\ ws.exp[k].self /\ ws.exp[k].min = 1 /\ HasBit(ws.exp[k].op, OpRemove) /\ Dir(ws.exp[k].name) = P
            THEN [ws.exp[k] EXCEPT !.min = 0] ELSE ws.exp[k]],
                  !.mq = SelectSeq(@, LAMBDA q : ~(ws.exp[q].self /\ HasBit(ws.exp[q].op, OpRemove) /\ Dir(ws.exp[q].name) = P))]
RelaxAll(ws) == Relax(ws, {ws.exp[k].ino : k \in (ws.eh+1)..Len(ws.exp)})

---------------------------------------------------------------------------
(* Kernel records.  r = [ino, m, n, ck] is one record the kernel emitted   *)
(* for inode r.ino (seen by the shadow instance); s its global sequence    *)
(* number.  The Watcher's own instance receives it iff it holds a mark on  *)
(* that inode whose mask selects the event bit.                            *)

\* (for "." and "/" filepath.Dir(p) = p: a watch is not its own parent)
ParentState(ws, p) ==
  LET S == IF Dir(p) = p THEN {} ELSE ByPath(ws, Dir(p)) IN
  IF S = {} THEN "none"
  ELSE IF \E i \in S : ws.uw[i].st = "live" THEN "live" ELSE "other"

\* Inside a recursive tree rooted at the working directory "./sub/x" and "sub/x" are the same true path (the code spells
\* a directory found by the walk the second way, one created later the first way): compared without the leading ".".
NormP(p) == IF Len(p) > 1 /\ p[1] = "." THEN Tail(p) ELSE p
NormIf(c, p) == IF c THEN NormP(p) ELSE p

ApplyRec(ws, r, s, maxq, unordered) ==
  IF ws.phase # "open" \/ r.ino \notin DOMAIN ws.uw THEN ws
  ELSE
  LET e     == ws.uw[r.ino]
      vis   == AndBits(r.m % 4096, e.mask)
      ign   == HasBit(r.m, IN_IGNORED)
      dself == HasBit(vis, IN_DELETE_SELF)
      mself == HasBit(vis, IN_MOVE_SELF)
      isEnd == dself \/ (mself /\ ~e.rec) \/ ign
      op    == InotifyOpOf(vis)
      name  == NormIf(ws.recursive, IF r.n = "" THEN e.path ELSE Append(e.path, r.n))
      name2 == IF e.alt = <<>> THEN <<>> ELSE NormIf(ws.recursive, IF r.n = "" THEN e.alt ELSE Append(e.alt, r.n))
      from  == IF HasBit(vis, IN_MOVED_TO) /\ r.ck # 0 /\ r.ck \in DOMAIN ws.ck THEN ws.ck[r.ck] ELSE <<>>
      \* "... reporting Remove unless the watched parent directory already did" (C09): the end of a watch may stay silent only
      \* if a parent directory watch of this Watcher really reported the removal.  (The code asks instead whether Dir(path) is
      \* listed when it gets to the record - see known findings "parent listed but silent".)
      reported == r.ino \in ws.prep
      maybe == ~reported /\ (ws.prepAmb \/ r.ino \in ws.prepU)
      pst   == IF dself /\ (reported \/ maybe) THEN ParentState(ws, IF e.alt # <<>> THEN e.alt ELSE e.path) ELSE "none"
      silent == dself /\ ~reported /\ ~maybe /\ ParentState(ws, IF e.alt # <<>> THEN e.alt ELSE e.path) # "none"
      merged== ws.last.ino = r.ino /\ ws.last.m = r.m /\ ws.last.n = r.n
      certain == ws.ovf /\ ws.room > 0         \* the queue is known to have room again (observed), see CheckObs
      min   == IF e.st # "live" \/ merged \/ (ws.ovf /\ ~certain) \/ pst = "other" THEN 0 ELSE 1
      ent   == [seq |-> s, ino |-> r.ino, name |-> name, name2 |-> name2, op |-> op, from |-> from,
                min |-> IF pst = "live" \/ (dself /\ maybe) THEN 0 ELSE min, ovf |-> (ws.ovf /\ ~certain), self |-> (r.n = ""),
                sup |-> (pst = "live" /\ ~maybe), ck |-> r.ck]
      queued== vis # 0 \/ ign
      \* an ended watch reports nothing further: records queued behind its end record yield no expectation
      w1 == IF op = 0 \/ (mself /\ e.rec) \/ e.st = "ending" THEN ws
            ELSE IF unordered THEN [ws EXCEPT !.bag = Append(@, ent)]      \* made by concurrent threads: the kernel order is not known
            ELSE [ws EXCEPT !.exp = Append(@, ent), !.room = IF certain THEN @ - 1 ELSE @,
                            !.mq = IF ent.min = 1 THEN Append(@, Len(ws.exp) + 1) ELSE @]
      w2 == IF HasBit(vis, IN_MOVED_FROM) /\ r.ck # 0
            THEN [w1 EXCEPT !.ck = (r.ck :> name) @@ @, !.ckseq = (r.ck :> s) @@ @, !.fromSeqs = Append(@, s)] ELSE w1
      w3a == IF e.st = "ending" /\ e.how = "move" /\ (HasBit(r.m, IN_DELETE_SELF) \/ ign)
            THEN [w2 EXCEPT !.flags = @ \cup {"msgone"}] ELSE w2
      w3 == IF silent THEN [w3a EXCEPT !.flags = @ \cup {"parent_listed_but_silent"}] ELSE w3a
      w4 == IF isEnd /\ e.st = "live"
            THEN [Unsuppress(w3, e.path) EXCEPT !.uw[r.ino].st = "ending", !.uw[r.ino].endSeq = s,
                            !.uw[r.ino].how = IF mself THEN "move" ELSE "delete",
                            !.gonePaths = @ \cup {e.path},
                            \* (queued while the kernel queue may be full: the record that ends the watch may never reach the library)
                            !.nontriv = @ \cup {"endofwatch"} \cup (IF ws.ovf /\ ~certain THEN {"end_record_in_overflow"} ELSE {})]
            ELSE w3
      w5 == IF queued
            \* (a record for a watch whose end is pending may or may not have been queued - the library may have
            \*  removed the kernel watch already - so it cannot be relied on to separate two identical records)
            THEN [w4 EXCEPT !.nq = @ + 1, !.last = IF e.st = "ending" THEN @ ELSE [ino |-> r.ino, m |-> r.m, n |-> r.n],
                            !.ovf = @ \/ (ws.nq + 1 >= maxq - OvfMargin),
                            !.nontriv = @ \cup (IF merged THEN {"merge"} ELSE {}) \cup (IF ws.nq >= 1 THEN {"batch"} ELSE {})]
            ELSE w4
  IN w5

---------------------------------------------------------------------------
(* Consumer side. *)

Match(x, v) == (x.name = v.name \/ (x.name2 # <<>> /\ x.name2 = v.name)) /\ x.op = v.op

(* Which expected entries may a received event v stand for?  Only optional  *)
(* entries may be passed over.  Candidates are the earliest matching         *)
(* optional entry before the first pending mandatory entry, and that         *)
(* mandatory entry itself if it matches (identical optional entries after    *)
(* the first are dominated by it).  More than one candidate means the trace  *)
(* does not determine the matching; the trace specification then branches    *)
(* and TLC searches for a matching without violation.                        *)
(* ws.mq is the queue of indices of pending mandatory entries, so that the   *)
(* search does not depend on the length of exp (bursts of 10^4 records).     *)
OptWindow == 512
MinI(a, b) == IF a < b THEN a ELSE b
FirstIdx(ws, a, b, T(_)) ==
  IF a > b \/ a > Len(ws.exp) THEN 0
  ELSE LET k == SelectInSeq(SubSeq(ws.exp, a, MinI(b, Len(ws.exp))), T) IN IF k = 0 THEN 0 ELSE a + k - 1

FirstMandIdx(ws) == IF ws.mq = <<>> THEN 0 ELSE Head(ws.mq)

Cands(ws, v, sup) ==
  LET a == ws.eh + 1
      m == FirstMandIdx(ws)
      lastOpt == IF m = 0 THEN Len(ws.exp) ELSE m - 1
      o1 == FirstIdx(ws, a, MinI(lastOpt, a + OptWindow - 1), LAMBDA x : Match(x, v) /\ x.sup = sup)
      \* behind a run of entries that an overflow may have dropped, look further
      o2 == IF o1 = 0 /\ a <= Len(ws.exp) /\ ws.exp[a].ovf
            THEN FirstIdx(ws, a + OptWindow, lastOpt, LAMBDA x : Match(x, v) /\ x.sup = sup) ELSE 0
      o  == IF o1 # 0 THEN o1 ELSE o2
  IN (IF o # 0 THEN {o} ELSE {}) \cup (IF m # 0 /\ Match(ws.exp[m], v) THEN {m} ELSE {})

\* an event may also stand for an entry behind a mandatory one (that one is then lost or reordered)
FirstMatch(ws, v) == FirstIdx(ws, ws.eh + 1, ws.eh + ScanWindow, LAMBDA x : Match(x, v))

HasUnknown(p) == \E k \in 1..Len(p) : Len(p[k]) > 0 /\ SubSeq(p[k], 1, 1) = "?"

\* entries passed over when the head moves from eh to j
PassOver(ws, j) ==
  LET seg == SubSeq(ws.exp, ws.eh + 1, j - 1) IN
  [ws EXCEPT !.skipped = @ \o SelectSeq(seg, LAMBDA x : x.min = 1),
             !.dropped = @ \/ (\E k \in 1..Len(seg) : seg[k].ovf),
             !.mq = IF @ = <<>> \/ Head(@) > j THEN @
                    ELSE IF Head(@) = j /\ (Len(@) = 1 \/ @[2] > j) THEN Tail(@)
                    ELSE SelectSeq(@, LAMBDA q : q > j),
             !.eh = j]

\* the lag window of an ended watch closes once the event of its end record, or of a later record, has been received
CloseLag(ws, seq) ==
  LET G == {i \in DOMAIN ws.uw : ws.uw[i].st = "ending" /\ ws.uw[i].endSeq <= seq} IN
  IF G = {} THEN ws ELSE [ws EXCEPT !.uw = Without(@, G)]

\* how many other moves out were recorded between the two halves of this move (moves made by several threads)
MovesBetween(ws, x) ==
  IF x.ck \notin DOMAIN ws.ckseq THEN 0
  ELSE Cardinality({q \in 1..Len(ws.fromSeqs) : ws.fromSeqs[q] > ws.ckseq[x.ck] /\ ws.fromSeqs[q] < x.seq})
\* The order of the Watcher's own queue is not known for operations made concurrently; when more than ten moves were
\* made at once, ten or more other moves out may lie between the halves of one move - beyond the ten-slot cookie ring.
MissingFrom(ws, x) == IF "manymoves" \in ws.flags \/ MovesBetween(ws, x) >= 10
                      THEN "renamed_from_missing:more_than_ten_concurrent_moves" ELSE "renamed_from_missing"

\* When the reader is parked sending the event of record s, it has handled every record up to s: a WatchList taken
\* at such a quiescent moment (unbuffered channel) must no longer show a watch whose end record is s or earlier.
\* The deduction is made when that event is finally received.
\* (Only for a record that was already queued when the list was taken: otherwise the reader was idle then, not parked.)
CheckLastWL(ws, seq) ==
  IF ~ws.wlValid THEN ws
  ELSE IF seq > ws.wlSeq THEN [ws EXCEPT !.wlValid = FALSE]
  ELSE LET ended == {ws.uw[i].path : i \in {k \in DOMAIN ws.uw : ws.uw[k].st = "ending" /\ ws.uw[k].endSeq <= seq}}
           w1 == [ws EXCEPT !.wlValid = FALSE] IN
       IF ws.lastWL \cap ended # {} THEN Bad(w1, {"C04", "C09"}, "watchlist_listed_ended_watch") ELSE w1

Consume(ws0, v, j) ==
  LET x  == ws0.exp[j]
      ws == CheckLastWL(ws0, x.seq)
      seg == SubSeq(ws.exp, ws.eh + 1, j - 1)
      \* a Create that overtakes the Rename half of its own move breaks "Rename immediately followed by Create"
      overtook == HasBit(x.op, OpCreate) /\ x.ck # 0 /\ \E k \in 1..Len(seg) : seg[k].min = 1 /\ seg[k].ck = x.ck /\ HasBit(seg[k].op, OpRename)
      w0 == IF overtook THEN Bad(ws, {"C03", "C01"}, "create_before_its_rename") ELSE ws
      w1 == PassOver(w0, j)
      \* the old name is owed only if the Rename half of the same move was delivered (it may have been dropped
      \* legitimately together with its watch)
      w2 == IF v.from # <<>> /\ v.from # x.from THEN Bad(w1, {"C11"}, "renamed_from_wrong")
            ELSE IF v.from = <<>> /\ x.from # <<>>
                    /\ (x.ck \in ws.seenCk      \* ... or was owed and has been passed over (the move's Rename is missing as well)
                        \/ \E q \in 1..Len(w1.skipped) : w1.skipped[q].ck = x.ck /\ HasBit(w1.skipped[q].op, OpRename))
                 THEN Bad(w1, {"C11"}, MissingFrom(ws, x))
            ELSE IF HasBit(x.op, OpRename) /\ x.ck # 0 THEN [w1 EXCEPT !.seenCk = @ \cup {x.ck}]
            ELSE w1
      \* (... and if the parent's own Remove was passed over, this one may as well be that Remove, out of order)
      w3a == IF x.sup THEN Bad(w2, {"C09", "C02"} \cup (IF \E q \in 1..Len(w2.skipped) : Match(w2.skipped[q], v) THEN {"C03"} ELSE {}),
                              "remove_reported_although_parent_listed") ELSE w2
      \* "the Create of a name precedes the Write, Chmod and Remove events of that same incarnation of the name": an owed
      \* Create that was passed over, no other Create / Remove / Rename of the name between it and this entry
      pcs == IF HasBit(x.op, OpCreate) THEN {} ELSE
             {q \in 1..Len(w3a.skipped) : /\ w3a.skipped[q].name = x.name /\ HasBit(w3a.skipped[q].op, OpCreate) /\ w3a.skipped[q].seq < x.seq
                                          /\ ~\E k \in 1..(j - 1) : /\ ws.exp[k].name = x.name /\ ws.exp[k].seq > w3a.skipped[q].seq
                                                                    /\ (HasBit(ws.exp[k].op, OpCreate) \/ HasBit(ws.exp[k].op, OpRemove) \/ HasBit(ws.exp[k].op, OpRename))}
      w3b == IF pcs # {} THEN Bad(w3a, {"C03", "C01"}, "before_its_create:" \o OpName(x.op)) ELSE w3a
      \* ... also when the Create was given up as lost at an earlier settling of the stream
      w3 == IF x.name \notin w3b.lostCr THEN w3b
            ELSE IF HasBit(x.op, OpCreate) \/ pcs # {} THEN [w3b EXCEPT !.lostCr = @ \ {x.name}]
            ELSE Bad([w3b EXCEPT !.lostCr = @ \ {x.name}], {"C03", "C01"}, "before_its_create:" \o OpName(x.op))
      w4 == CloseLag(w3, x.seq)
  IN IF x.from # <<>> THEN Note(w4, "rename_pair") ELSE w4

\* the set of possible successor states
RecvEv(ws0, v0) ==
  LET ws == IF ws0.phase = "closed" THEN [ws0 EXCEPT !.postClose = @ + 1] ELSE ws0
      v  == IF ws0.recursive THEN [v0 EXCEPT !.name = NormP(@), !.from = NormP(@)] ELSE v0 IN
  IF v.op = 0 THEN {Bad(ws, {"C02"}, "empty_op")}
  ELSE IF ws.fog THEN {ws}
  ELSE
  LET C0  == Cands(ws, v, FALSE)
      C   == IF C0 # {} THEN C0 ELSE Cands(ws, v, TRUE)   \* a suppressed entry only as last resort
  IN
  IF C # {} THEN {Consume(IF Cardinality(C) > 1 THEN Note(ws, "ambiguous_match") ELSE ws, v, j) : j \in C}
  ELSE IF \E q \in 1..Len(ws.bag) : Match(ws.bag[q], v) THEN
       LET q == SelectInSeq(ws.bag, LAMBDA x : Match(x, v) /\ x.from = v.from)
           q2 == IF q # 0 THEN q ELSE SelectInSeq(ws.bag, LAMBDA x : Match(x, v))
           x == ws.bag[q2]
           w1 == Note([ws EXCEPT !.bag = SubSeq(@, 1, q2 - 1) \o SubSeq(@, q2 + 1, Len(@))], "concurrent_ops")
       IN {IF v.from # <<>> /\ v.from # x.from THEN Bad(w1, {"C11"}, "renamed_from_wrong")
           ELSE IF v.from = <<>> /\ x.from # <<>> THEN Bad(w1, {"C11"}, MissingFrom(ws, x))
           ELSE IF x.from # <<>> THEN Note(w1, "rename_pair") ELSE w1}
  ELSE
     LET sk == {q \in 1..Len(ws.skipped) : Match(ws.skipped[q], v)} IN
     IF sk # {} THEN
        LET q == CHOOSE q \in sk : \A q2 \in sk : q <= q2 IN
        {Bad([ws EXCEPT !.skipped = SubSeq(@, 1, q - 1) \o SubSeq(@, q + 1, Len(@))], {"C03"}, "reordered:" \o OpName(v.op))}
     ELSE
        LET h == FirstMandIdx(ws)
            i == FirstMatch(ws, v) IN
        IF i # 0 THEN {Consume(ws, v, i)}             \* passes over a mandatory entry: lost or reordered, decided later
        ELSE IF h # 0 /\ ws.exp[h].op = v.op /\ ws.exp[h].name # v.name
        THEN {Bad(PassOver(ws, h), {"C08", "C01", "C02"}, "wrong_name:" \o OpName(v.op))}
        ELSE IF h # 0 /\ ws.exp[h].name = v.name
        THEN {Bad(PassOver(ws, h), {"C01", "C02", "C15"}, "wrong_op:" \o OpName(ws.exp[h].op) \o "->" \o OpName(v.op))}
        ELSE {Bad(ws, {"C02"} \cup (IF HasUnknown(v.name) THEN {"C08"} ELSE {})
                             \cup (IF v.name \in ws.gonePaths \/ (Len(v.name) > 1 /\ PFront(v.name) \in ws.gonePaths) THEN {"C09"} ELSE {}),
                  "phantom:" \o OpName(v.op))}

RecvErr(ws, cls) ==
  IF "readfault_on" \in ws.flags /\ cls # "overflow" THEN Note(ws, "read_fault")                                      \* every read fails while the fault is on
  ELSE IF "readfault" \in ws.flags /\ cls # "overflow" THEN Note([ws EXCEPT !.flags = @ \ {"readfault"}], "read_fault")   \* the injected read(2) failure is a genuine one
  \* (the injected fault: the registration of a new directory of the tree failed - that directory is not covered, by construction)
  ELSE IF "regfault" \in ws.flags /\ cls = "errno:EINVAL"
       THEN LET N == {i \in DOMAIN ws.uw : ws.uw[i].how = "covered_new" /\ ws.uw[i].st = "live"} IN
            Note(Relax([ws EXCEPT !.flags = @ \ {"regfault"}, !.uw = Without(@, N)], N), "new_directory_unwatchable")
  ELSE IF "regloop" \in ws.flags /\ cls = "errno:ELOOP" THEN Note([ws EXCEPT !.flags = @ \ {"regloop"}], "new_directory_unwatchable")
  ELSE IF cls = "overflow"
  THEN IF ws.ovf THEN Note([ws EXCEPT !.gotOvf = @ + 1], "overflow")
       ELSE Bad(ws, {"C10"}, "overflow_without_cause")
  ELSE Bad(ws, {"C10"}, "spurious_error:" \o cls \o (IF "msgone" \in ws.flags THEN ":after_move_then_delete" ELSE ""))

RecvClosed(ws, ch) ==
  LET w1 == IF ch = "ev" THEN [ws EXCEPT !.evc = TRUE] ELSE [ws EXCEPT !.errc = TRUE] IN
  IF ws.phase = "open" THEN Bad(w1, {"C06"}, "channel_closed_without_close") ELSE w1

\* set of possible successor states
RecvVal(ws, ch, v) ==
  CASE v.t = "ev"     -> RecvEv(ws, v)
    [] v.t = "err"    -> {RecvErr(ws, v.cls)}
    [] v.t = "closed" -> {RecvClosed(ws, ch)}
    [] OTHER          -> {ws}

\* The stream is drained: nothing is queued, buffered or being sent.
Settle(ws) ==
  LET rest  == SubSeq(ws.exp, ws.eh + 1, Len(ws.exp))
      lostR == SelectSeq(rest, LAMBDA x : x.min = 1)
      lost  == ws.skipped \o lostR \o SelectSeq(ws.bag, LAMBDA x : x.min = 1)
      drop  == ws.dropped \/ (\E k \in 1..Len(rest) : rest[k].ovf)
      w1 == IF lost # <<>> /\ ~ws.fog /\ ws.phase = "open"
            THEN Bad(ws, {"C01"} \cup (IF lost[1].ino \in DOMAIN ws.uw /\ (ws.uw[lost[1].ino].st # "live" \/ ws.uw[lost[1].ino].path \in ws.readded)
                                       THEN {"C09"} ELSE {})
                             \cup (IF lost[1].ino \in ws.uoInos THEN {"C09"} ELSE {})  \* the watch is kept until the last descriptor is closed
                             \cup (IF ws.ovf THEN {"C10"} ELSE {})       \* after an overflow the watcher must keep delivering
                             \* "Rename of the old name immediately followed by Create of the new name": the Rename came, the Create never did
                             \cup (IF \E q \in 1..Len(lost) : HasBit(lost[q].op, OpCreate) /\ lost[q].ck # 0 /\ lost[q].ck \in ws.seenCk THEN {"C03"} ELSE {}),
                     "lost:" \o OpName(lost[1].op) \o (IF "parent_listed_but_silent" \in ws.flags /\ HasBit(lost[1].op, OpRemove)
                                                       THEN ":parent_listed_but_silent" ELSE "")) ELSE ws
      w2 == IF drop /\ ws.gotOvf = 0 /\ ws.phase = "open" /\ ~ws.fog
            THEN Bad(w1, {"C01", "C10"}, "overflow_not_reported") ELSE w1
      G  == {i \in DOMAIN ws.uw : ws.uw[i].st = "ending"}
      lc == {lost[q].name : q \in {j \in 1..Len(lost) : HasBit(lost[j].op, OpCreate)}}
  IN [w2 EXCEPT !.lostCr = IF ~ws.fog /\ ws.phase = "open" THEN @ \cup lc ELSE @, !.exp = <<>>, !.eh = 0, !.mq = <<>>, !.bag = <<>>, !.skipped = <<>>, !.last = NoRec, !.nq = 0, !.ovf = FALSE,
                !.dropped = FALSE, !.gotOvf = 0, !.uw = Without(@, G), !.flags = {}, !.seenCk = {}, !.ovfFion = -1, !.room = 0, !.fromSeqs = <<>>, !.wlValid = FALSE]

---------------------------------------------------------------------------
(* API calls. *)

\* alt: for a path added on its own inside a recursively watched tree, where it is now after a directory above it was renamed
\* (C08 names its events after the Add argument, C19 after the true current path: either is accepted)
Entry(P, mask, rec) == [path |-> P, mask |-> mask, st |-> "live", how |-> "", endSeq |-> 0, rec |-> rec, root |-> <<>>, alt |-> <<>>]

\* Add(P) where the cleaned argument P currently resolves to inode i (reserr = "") or fails to resolve.
IdealAdd(ws, P, i, reserr, mask, ret) ==
  IF ws.phase = "closing" THEN ws
  ELSE IF ws.phase = "closed" THEN (IF ret = "ErrClosed" THEN ws ELSE Bad(ws, {"C06"}, "add_after_close:" \o ret))
  ELSE IF reserr # "" THEN
       (IF ret = "ok" THEN Bad(ws, {"C04"}, "add_ok_on_unresolvable:" \o reserr)
        ELSE IF ret = "ErrClosed" \/ ret = "ErrNonExistentWatch" THEN Bad(ws, {"C04"}, "add_wrong_error:" \o ret)
        ELSE Note(ws, "failed_add"))
  ELSE IF ret # "ok" THEN Bad(ws, {"C04"}, "add_failed:" \o ret)
  ELSE
  LET same == ByPath(ws, P) IN
  IF i \in same THEN
       IF ws.uw[i].st = "live"
       THEN Note([ws EXCEPT !.uw[i].mask = OrBits(@, mask)], "readd")
       ELSE [ws EXCEPT !.fog = TRUE]                       \* re-Add of the same inode while its end-of-watch is pending
  ELSE IF same # {} THEN                                   \* P is listed but now names another file: re-point
       IF i \in DOMAIN ws.uw
       THEN IF ws.uw[i].st = "live"
            THEN Note(Relax([ws EXCEPT !.uw = [j \in DOMAIN @ |-> IF j \in same THEN [@[j] EXCEPT !.st = "unsure", !.how = "alias"] ELSE @[j]]], same), "repoint_alias")
            ELSE [ws EXCEPT !.fog = TRUE]
       ELSE Note(Relax([ws EXCEPT !.uw = (i :> Entry(P, mask, FALSE)) @@ Without(@, same),
                                  !.gonePaths = @ \ {P}, !.readded = @ \cup {P}], same), "repoint")
  ELSE IF i \in DOMAIN ws.uw THEN
       IF ws.uw[i].st = "live" THEN Note(ws, "alias_add")  \* same file under another name: nothing changes
       ELSE [ws EXCEPT !.fog = TRUE]
  ELSE RelaxChildRemoves([ws EXCEPT !.uw = (i :> Entry(P, mask, FALSE)) @@ @, !.gonePaths = @ \ {P},
                                    !.readded = IF P \in ws.gonePaths THEN @ \cup {P} ELSE @], P)

---------------------------------------------------------------------------
(* Recursive watches (C19; the unfinished feature): Add(root/...) covers   *)
(* every directory below the root; a directory created inside the tree is  *)
(* covered once its Create has been delivered; a directory renamed within  *)
(* the tree, and everything below it, is reported under the new location;  *)
(* Remove(root/...) removes exactly that tree.  Paths are compared         *)
(* component-wise (Paths!IsUnder), never as strings.                       *)
IdealAddRec(ws, P, reserr, tree, mask, ret) ==
  IF ws.phase # "open" THEN ws
  ELSE IF reserr # "" THEN (IF ret = "ok" THEN Bad(ws, {"C04", "C19"}, "add_ok_on_unresolvable:" \o reserr) ELSE ws)
  ELSE IF ret # "ok" THEN Bad(ws, {"C04", "C19"}, "add_failed:" \o ret)
  ELSE LET new == [k \in {tree[j].ino : j \in 1..Len(tree)} |->
                     LET j == CHOOSE j \in 1..Len(tree) : tree[j].ino = k IN
                     [Entry(tree[j].path, mask, TRUE) EXCEPT !.root = P]]
       IN Note([ws EXCEPT !.uw = [x \in (DOMAIN new) \cup (DOMAIN ws.uw) |-> IF x \in DOMAIN new THEN new[x] ELSE ws.uw[x]],
                          !.recursive = TRUE], "recursive")

\* a directory was created in / moved within a recursively watched tree (from the fs line of the trace)
CoverNewDir(ws, parentIno, name, ino) ==
  IF parentIno \in DOMAIN ws.uw /\ ws.uw[parentIno].rec /\ ws.uw[parentIno].st = "live" /\ ino \notin DOMAIN ws.uw
  THEN [ws EXCEPT !.uw = (ino :> [Entry(Append(ws.uw[parentIno].path, name), ws.uw[parentIno].mask, TRUE) EXCEPT !.root = ws.uw[parentIno].root, !.how = "covered_new"]) @@ @]
  ELSE ws

MoveDir(ws, ino, newParentIno, name) ==
  IF ino \in DOMAIN ws.uw /\ ws.uw[ino].rec /\ newParentIno \in DOMAIN ws.uw /\ ws.uw[newParentIno].rec
  THEN LET old == ws.uw[ino].path
           new == Append(ws.uw[newParentIno].path, name)
           U == ws.uw
           Cur(e) == IF e.alt # <<>> THEN e.alt ELSE e.path
       IN Note([ws EXCEPT !.uw = [k \in DOMAIN U |->
                   IF U[k].rec /\ IsUnder(U[k].path, old)
                   THEN [U[k] EXCEPT !.path = new \o SubSeq(U[k].path, Len(old) + 1, Len(U[k].path))]
                   ELSE IF ~U[k].rec /\ IsUnder(Cur(U[k]), old)
                   THEN [U[k] EXCEPT !.alt = new \o SubSeq(Cur(U[k]), Len(old) + 1, Len(Cur(U[k])))]
                   ELSE U[k]]], "recursive_rename")
  ELSE ws

IdealRemoveRec(ws, P, ret) ==
  IF ws.phase # "open" THEN ws
  ELSE LET S == {k \in DOMAIN ws.uw : ws.uw[k].rec /\ ws.uw[k].root = P} IN
       IF S = {} THEN (IF ret = "ErrNonExistentWatch" THEN ws ELSE Bad(ws, {"C04", "C19"}, "remove_nonexistent:" \o ret))
       \* (lag window, as for a single watch: a directory of the tree was deleted and its end record is still pending -
       \*  inotify_rm_watch reports EINVAL for it; the watch set is released all the same)
       ELSE IF ret = "errno:EINVAL" /\ \E k \in S : ws.uw[k].st # "live" THEN Note(Relax([ws EXCEPT !.uw = Without(@, S)], S), "remove_in_lag")
       ELSE IF ret # "ok" THEN Bad(Relax([ws EXCEPT !.uw = Without(@, S)], S), {"C04", "C19"}, "remove_failed:" \o ret)
       ELSE Note(Relax([ws EXCEPT !.uw = Without(@, S)], S), "recursive_remove")

IdealRemove(ws, P, ret) ==
  IF ws.phase = "closing" THEN ws
  ELSE IF ws.phase = "closed" THEN (IF ret = "ok" THEN ws ELSE Bad(ws, {"C06"}, "remove_after_close:" \o ret))
  ELSE
  LET same == ByPath(ws, P)
      live == {j \in same : ws.uw[j].st = "live"}
      w1   == Unsuppress(Relax([ws EXCEPT !.uw = Without(@, same)], same), P)
  IN
  \* (fog: an Add met a watch whose end was pending - which of the two readings holds is not known, results are not judged)
  IF live # {} THEN
       (IF ret = "ok" \/ ws.fog THEN w1 ELSE Bad(w1, {"C04"} \cup (IF P \in ws.readded THEN {"C09"} ELSE {}), "remove_failed:" \o ret))
  ELSE IF same # {} THEN
       (IF ret \in {"ok", "ErrNonExistentWatch", "errno:EINVAL"} THEN Note(w1, "remove_in_lag") ELSE Bad(w1, {"C04", "C09"}, "remove_ended:" \o ret))
  ELSE IF ret = "ErrNonExistentWatch" THEN Note(ws, "remove_nonexistent")
  ELSE IF ws.fog THEN ws
  ELSE Bad(ws, {"C04"} \cup (IF P \in ws.gonePaths THEN {"C09"} ELSE {}), "remove_nonexistent:" \o ret)

\* WatchList returned the sequence wl (wlnil: it returned nil)
CheckWL(ws, wl, wlnil) ==
  IF ws.phase = "closing" THEN ws
  ELSE IF ws.phase = "closed" THEN (IF wlnil THEN ws ELSE Bad(ws, {"C06"}, "watchlist_after_close"))
  ELSE IF ws.fog \/ ws.recursive THEN ws          \* what WatchList shows of a recursive watch is not specified
  ELSE
  LET set   == {wl[k] : k \in 1..Len(wl)}
      liveP == PathsOf(ws, Live(ws))
      allP  == PathsOf(ws, DOMAIN ws.uw)
      w1 == IF Len(wl) # Cardinality(set) THEN Bad(ws, {"C04", "C07"}, "watchlist_duplicate") ELSE ws
      w2 == IF liveP \ set # {} THEN Bad(w1, {"C04"} \cup (IF (liveP \ set) \cap ws.readded # {} THEN {"C09"} ELSE {}), "watchlist_missing") ELSE w1
      w3 == IF set \ allP # {}
            THEN Bad(w2, {"C04"} \cup (IF (set \ allP) \cap ws.gonePaths # {} THEN {"C09"} ELSE {}),
                     "watchlist_extra" \o (IF "end_record_in_overflow" \in ws.nontriv THEN ":end_record_lost_in_overflow" ELSE "")) ELSE w2
      U  == {j \in DOMAIN ws.uw : ws.uw[j].st = "unsure"}
      Ugone == {j \in U : ws.uw[j].path \notin set}
  IN [w3 EXCEPT !.uw = [j \in (DOMAIN @) \ Ugone |-> IF j \in U THEN [@[j] EXCEPT !.st = "live"] ELSE @[j]],
                !.lastWL = set, !.wlValid = (ws.cap <= 0)]

IdealClose(ws, ret) ==
  LET w1 == IF ret = "ok" THEN ws ELSE Bad(ws, {"C06", "C05"}, "close_returned:" \o ret) IN
  RelaxAll([w1 EXCEPT !.phase = "closed"])

---------------------------------------------------------------------------
(* Observations at quiescence: kernel marks (/proc fdinfo), table sizes    *)
(* (hook), reader state, channel capacity.                                 *)

ObsIdle(o) == o.rd = "IO wait" /\ o.fion = 0 /\ o.len = 0

\* While an overflow is possible, the observed size of the kernel queue bounds how much room it has again:
\* a record is at most 272 bytes, so a queue that shrank by b bytes has at least b / 272 free slots.
ObsRoom(ws0, o) ==
  LET ws == IF o.fion = 0 THEN [ws0 EXCEPT !.last = NoRec] ELSE ws0 IN   \* queue empty: the next record cannot be merged
  IF ~ws.ovf THEN ws
  ELSE IF ws.ovfFion = -1 THEN [ws EXCEPT !.ovfFion = o.fion]
  ELSE LET r == ((ws.ovfFion - o.fion) \div 272) - 2 IN
       IF r > ws.room THEN [ws EXCEPT !.room = r] ELSE ws

CheckObs(ws00, o, defcap) ==
  LET ws0 == ObsRoom(ws00, o)
      ws == IF ObsIdle(o) /\ ws0.phase = "open" THEN Settle(ws0) ELSE ws0
      wantCap == IF ws.cap < 0 THEN defcap ELSE ws.cap
      w0 == IF o.cap # wantCap THEN Bad(ws, {"C14"}, "capacity") ELSE ws
  IN
  IF ws.phase = "closed" \/ ws.fog THEN w0
  ELSE
  LET inos  == {o.marks[k].ino : k \in 1..Len(o.marks)}
      liveI == Live(ws)
      allI  == DOMAIN ws.uw
      \* (a new directory of a recursive tree is marked only when the reader gets to its Create: not judged here)
      w1 == IF ~ws.recursive /\ liveI \ inos # {} THEN Bad(w0, {"C12", "C04"}, "listed_path_without_mark") ELSE w0
      w2 == IF inos \ allI # {}
            THEN Bad(w1, {"C12"}, "orphan_mark" \o (IF "repoint" \in ws.nontriv \/ "repoint_alias" \in ws.nontriv THEN ":after_repoint" ELSE ""))
            ELSE w1
      w3 == IF ~o.locked /\ (o.nwd # o.npath \/ o.danglers > 0)
            THEN Bad(w2, {"C12", "C04"}, "tables_disagree" \o (IF "repoint_alias" \in ws.nontriv THEN ":after_alias_repoint" ELSE ""))
            ELSE w2
      w4 == IF ~ws.recursive /\ ~o.locked /\ o.nwd # -1 /\ (o.nwd < Cardinality(liveI) \/ o.nwd > Cardinality(allI)) /\ o.nwd = o.npath
            THEN Bad(w3, {"C12"}, "table_size" \o (IF "end_record_in_overflow" \in ws.nontriv THEN ":end_record_lost_in_overflow" ELSE "")) ELSE w3
  IN w4
=============================================================================

------------------------------ MODULE LinTrace ------------------------------
(***************************************************************************)
(* C07 (and the concurrent parts of C05 / C06): histories of concurrent    *)
(* Add / Remove / WatchList / Close calls recorded by harness/cmd/         *)
(* inostress (call and return lines ordered by one atomic stamp) must be   *)
(* linearizable with respect to the sequential watch-set specification:    *)
(* TLC searches for an order of linearization points (one silent step per  *)
(* call, between its call and its return) under which every logged result  *)
(* is the result the abstract state gives.  A watch may also end silently  *)
(* (End) once a file system goroutine has started deleting / renaming its  *)
(* path.  Programs are concatenated; a program for which no branch reaches *)
(* its "endprog" line is a violation (Abandon moves on to the next one).   *)
(***************************************************************************)
EXTENDS Integers, Sequences, FiniteSets, TLC, Json, IOUtils, SequencesExt

TraceFile == IF "TRACE" \in DOMAIN IOEnv THEN IOEnv.TRACE ELSE "hist.ndjson"
OutFile   == IF "TRACE_OUT" \in DOMAIN IOEnv THEN IOEnv.TRACE_OUT ELSE "hist.out.json"
Trace == ndJsonDeserialize(TraceFile)

VARIABLES l,        \* next line
          prog,     \* index of the current program, its mode
          ws,       \* abstract watch set (paths as passed to Add, cleaned)
          closed,   \* Close has taken effect
          endable,  \* paths whose watch may end by itself (deleted / renamed by a file system goroutine)
          pend      \* thread -> pending call [op, path, res, wl, wlnil, lin]
vars == <<l, prog, ws, closed, endable, pend>>

EmptyFn == [x \in {} |-> 0]
Line == Trace[l]
Is(k) == l <= Len(Trace) /\ Line.k = k

Init == /\ l = 1 /\ prog = [idx |-> -1, mode |-> ""] /\ ws = {} /\ closed = FALSE /\ endable = {} /\ pend = EmptyFn
        /\ TLCSet(1, 1) /\ TLCSet(3, EmptyFn)

Prog == /\ Is("prog")
        /\ prog' = [idx |-> Line.idx, mode |-> Line.mode]
        /\ ws' = {} /\ closed' = FALSE /\ endable' = {} /\ pend' = EmptyFn /\ l' = l + 1

Call == /\ Is("call") /\ Line.t \notin DOMAIN pend
        /\ pend' = (Line.t :> [op |-> Line.op, path |-> Line.path, res |-> Line.res, wl |-> Line.wl, wlnil |-> Line.wlnil, lin |-> FALSE]) @@ pend
        /\ l' = l + 1 /\ UNCHANGED <<prog, ws, closed, endable>>

\* the sequential specification: is the logged result the one the abstract state gives, and what is the new state
Lin(t) ==
  /\ t \in DOMAIN pend /\ ~pend[t].lin
  /\ LET c == pend[t] IN
     /\ CASE c.op = "add" ->
               IF closed THEN c.res = "ErrClosed" /\ UNCHANGED <<ws, closed>>
               ELSE \/ c.res = "ok" /\ ws' = ws \cup {c.path} /\ UNCHANGED closed
                    \/ c.res = "errno:ENOENT" /\ c.path \in endable /\ UNCHANGED <<ws, closed>>      \* momentarily missing
          [] c.op = "remove" ->
               IF closed THEN c.res = "ok" /\ UNCHANGED <<ws, closed>>
               ELSE IF c.path \in ws
                    THEN /\ (c.res = "ok" \/ (c.res = "errno:EINVAL" /\ c.path \in endable))
                         /\ ws' = ws \ {c.path} /\ UNCHANGED closed
                    ELSE c.res = "ErrNonExistentWatch" /\ UNCHANGED <<ws, closed>>
          [] c.op = "watchlist" ->
               /\ IF closed THEN c.wlnil
                  ELSE ~c.wlnil /\ Len(c.wl) = Cardinality(ws) /\ {c.wl[i] : i \in 1..Len(c.wl)} = ws
               /\ UNCHANGED <<ws, closed>>
          [] c.op = "close" -> c.res = "ok" /\ closed' = TRUE /\ UNCHANGED ws
          [] OTHER -> FALSE
  /\ pend' = [pend EXCEPT ![t].lin = TRUE]
  /\ UNCHANGED <<l, prog, endable>>

\* a watch ends by itself
End(p) == /\ p \in ws /\ p \in endable /\ ~closed
          /\ ws' = ws \ {p} /\ UNCHANGED <<l, prog, closed, endable, pend>>

Ret == /\ Is("ret") /\ Line.t \in DOMAIN pend /\ pend[Line.t].lin
       /\ pend' = [t \in (DOMAIN pend) \ {Line.t} |-> pend[t]]
       /\ l' = l + 1 /\ UNCHANGED <<prog, ws, closed, endable>>

Fs == /\ Is("fs")
      /\ endable' = endable \cup {Line.path}
      /\ l' = l + 1 /\ UNCHANGED <<prog, ws, closed, pend>>

Skip == /\ (Is("crash") \/ Is("infra"))
        /\ l' = l + 1 /\ UNCHANGED <<prog, ws, closed, endable, pend>>

\* the program is explained: remember it
EndProg == /\ Is("endprog") /\ \A t \in DOMAIN pend : pend[t].lin
           /\ TLCSet(3, (prog.idx :> TRUE) @@ TLCGet(3))
           /\ l' = l + 1 /\ pend' = EmptyFn /\ UNCHANGED <<prog, ws, closed, endable>>

\* give up on this program and go on with the next one (so that one bad history does not hide the others)
ProgLines == {j \in 1..Len(Trace) : Trace[j].k = "prog"}
NextProg == LET S == {j \in ProgLines : j > l} IN IF S = {} THEN 0 ELSE CHOOSE j \in S : \A k \in S : j <= k
Abandon == /\ l <= Len(Trace) /\ prog.idx >= 0 /\ ~Is("prog")
           /\ NextProg # 0
           /\ l' = NextProg /\ UNCHANGED <<prog, ws, closed, endable, pend>>

Threads == {"t0", "t1", "t2", "t3", "t4", "t9"}
Next == (Prog \/ Call \/ Ret \/ Fs \/ Skip \/ EndProg \/ Abandon \/ (\E t \in Threads : Lin(t)) \/ (\E p \in {"p1", "p2", "p3"} : End(p)))
        /\ TLCSet(1, IF TLCGet(1) > l' THEN TLCGet(1) ELSE l')
Spec == Init /\ [][Next]_vars

Accepted ==
  LET ok == TLCGet(3)
      progs == {i \in 1..Len(Trace) : Trace[i].k = "prog"}
      ends  == {i \in 1..Len(Trace) : Trace[i].k = "endprog"} IN
  JsonSerialize(OutFile, [explained |-> SetToSeq(DOMAIN ok),
                          programs |-> SetToSeq({Trace[i].idx : i \in progs}),
                          hung |-> SetToSeq({<<Trace[i].idx, Trace[i].hang>> : i \in {j \in ends : Trace[j].hang # <<>>}}),
                          crashed |-> SetToSeq({<<Trace[i].idx, Trace[i].cls>> : i \in {j \in 1..Len(Trace) : Trace[j].k = "crash"}}),
                          total |-> Len(Trace)])
=============================================================================

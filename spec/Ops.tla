------------------------------- MODULE Ops -------------------------------
(* Operation bits of fsnotify.Op, native inotify / kqueue / Windows flag    *)
(* bits, the translation tables in both directions, and the renderings of   *)
(* Op and Event.  Everything here is a pure function; properties C15 / C16  *)
(* are theorems about these functions (checked by TLC over all inputs in    *)
(* MC_Ops) and the real tables are compared against them (OpsTrace).        *)
EXTENDS Integers, Sequences, FiniteSets

\* ---- fsnotify.Op ---------------------------------------------------------
OpCreate     == 1
OpWrite      == 2
OpRemove     == 4
OpRename     == 8
OpChmod      == 16
XOpen      == 32
XRead      == 64
XCloseWrite== 128
XCloseRead == 256

DefaultOps == OpCreate + OpWrite + OpRemove + OpRename + OpChmod      \* 31
AllOpBits  == <<OpCreate, OpWrite, OpRemove, OpRename, OpChmod, XOpen, XRead, XCloseWrite, XCloseRead>>

\* HasBit(m, b): b is a power of two
HasBit(m, b) == (m \div b) % 2 = 1
\* Op.Has: the two sets intersect
RECURSIVE AndBits(_, _)
AndBits(a, b) == IF a = 0 \/ b = 0 THEN 0
                 ELSE 2 * AndBits(a \div 2, b \div 2) + (IF a % 2 = 1 /\ b % 2 = 1 THEN 1 ELSE 0)
RECURSIVE OrBits(_, _)
OrBits(a, b) == IF a = 0 THEN b ELSE IF b = 0 THEN a
                ELSE 2 * OrBits(a \div 2, b \div 2) + (IF a % 2 = 1 \/ b % 2 = 1 THEN 1 ELSE 0)
Has(o, h) == AndBits(o, h) # 0

\* ---- inotify -------------------------------------------------------------
IN_ACCESS        == 1
IN_MODIFY        == 2
IN_ATTRIB        == 4
IN_CLOSE_WRITE   == 8
IN_CLOSE_NOWRITE == 16
IN_OPEN          == 32
IN_MOVED_FROM    == 64
IN_MOVED_TO      == 128
IN_CREATE        == 256
IN_DELETE        == 512
IN_DELETE_SELF   == 1024
IN_MOVE_SELF     == 2048
IN_UNMOUNT       == 8192
IN_Q_OVERFLOW    == 16384
IN_IGNORED       == 32768
IN_ISDIR         == 1073741824
IN_DONT_FOLLOW   == 33554432
IN_MASK_ADD      == 536870912
IN_EVENT_BITS    == 4095           \* the twelve event bits

\* the documented translation, one line per portable operation
InotifyOpOf(m) ==
    (IF HasBit(m, IN_CREATE) \/ HasBit(m, IN_MOVED_TO)        THEN OpCreate      ELSE 0)
  + (IF HasBit(m, IN_DELETE_SELF) \/ HasBit(m, IN_DELETE)     THEN OpRemove      ELSE 0)
  + (IF HasBit(m, IN_MODIFY)                                  THEN OpWrite       ELSE 0)
  + (IF HasBit(m, IN_OPEN)                                    THEN XOpen       ELSE 0)
  + (IF HasBit(m, IN_ACCESS)                                  THEN XRead       ELSE 0)
  + (IF HasBit(m, IN_CLOSE_WRITE)                             THEN XCloseWrite ELSE 0)
  + (IF HasBit(m, IN_CLOSE_NOWRITE)                           THEN XCloseRead  ELSE 0)
  + (IF HasBit(m, IN_MOVE_SELF) \/ HasBit(m, IN_MOVED_FROM)   THEN OpRename      ELSE 0)
  + (IF HasBit(m, IN_ATTRIB)                                  THEN OpChmod       ELSE 0)

\* native flags to subscribe to for a requested set of operations
InotifyRequest(ops) ==
    (IF HasBit(ops, OpCreate)      THEN IN_CREATE ELSE 0)
  + (IF HasBit(ops, OpWrite)       THEN IN_MODIFY ELSE 0)
  + (IF HasBit(ops, OpRemove)      THEN IN_DELETE + IN_DELETE_SELF ELSE 0)
  + (IF HasBit(ops, OpRename)      THEN IN_MOVED_TO + IN_MOVED_FROM + IN_MOVE_SELF ELSE 0)
  + (IF HasBit(ops, OpChmod)       THEN IN_ATTRIB ELSE 0)
  + (IF HasBit(ops, XOpen)       THEN IN_OPEN ELSE 0)
  + (IF HasBit(ops, XRead)       THEN IN_ACCESS ELSE 0)
  + (IF HasBit(ops, XCloseWrite) THEN IN_CLOSE_WRITE ELSE 0)
  + (IF HasBit(ops, XCloseRead)  THEN IN_CLOSE_NOWRITE ELSE 0)

\* ---- kqueue (FreeBSD NOTE_* values) --------------------------------------
NOTE_DELETE == 1
NOTE_WRITE  == 2
NOTE_EXTEND == 4
NOTE_ATTRIB == 8
NOTE_LINK   == 16
NOTE_RENAME == 32
NOTE_REVOKE == 64
NOTE_OPEN        == 128
NOTE_CLOSE       == 256
NOTE_CLOSE_WRITE == 512
NOTE_READ        == 1024

\* kqueue alone drops OpWrite when OpRemove is present
KqueueOpOf(m) ==
    (IF HasBit(m, NOTE_DELETE) THEN OpRemove ELSE 0)
  + (IF HasBit(m, NOTE_WRITE) /\ ~HasBit(m, NOTE_DELETE) THEN OpWrite ELSE 0)
  + (IF HasBit(m, NOTE_RENAME) THEN OpRename ELSE 0)
  + (IF HasBit(m, NOTE_ATTRIB) THEN OpChmod ELSE 0)
KqueueSubscription == NOTE_DELETE + NOTE_WRITE + NOTE_ATTRIB + NOTE_RENAME

\* ---- Windows --------------------------------------------------------------
FILE_ACTION_ADDED            == 1
FILE_ACTION_REMOVED          == 2
FILE_ACTION_MODIFIED         == 3
FILE_ACTION_RENAMED_OLD_NAME == 4
FILE_ACTION_RENAMED_NEW_NAME == 5
sysFSCREATE     == 256
sysFSDELETE     == 512
sysFSDELETESELF == 1024
sysFSMODIFY     == 2
sysFSMOVEDFROM  == 64
sysFSMOVEDTO    == 128
sysFSMOVESELF   == 2048
sysFSIGNORED    == 32768
sysFSALLEVENTS  == 4095
FILE_NOTIFY_CHANGE_FILE_NAME  == 1
FILE_NOTIFY_CHANGE_DIR_NAME   == 2
FILE_NOTIFY_CHANGE_LAST_WRITE == 16
\* newEvent(name, mask) of the Windows backend, over the internal sysFS* mask: creation and move-in to
\* Create, deletion to Remove, modification to Write, move-out and move-of-self to Rename, never Chmod
WindowsOpOf(m) ==
    (IF HasBit(m, sysFSCREATE) \/ HasBit(m, sysFSMOVEDTO) THEN OpCreate ELSE 0)
  + (IF HasBit(m, sysFSDELETE) \/ HasBit(m, sysFSDELETESELF) THEN OpRemove ELSE 0)
  + (IF HasBit(m, sysFSMODIFY) THEN OpWrite ELSE 0)
  + (IF HasBit(m, sysFSMOVEDFROM) \/ HasBit(m, sysFSMOVESELF) THEN OpRename ELSE 0)
\* FILE_ACTION_* code -> internal mask
WindowsActionMask(a) ==
    CASE a = FILE_ACTION_ADDED -> sysFSCREATE
      [] a = FILE_ACTION_REMOVED -> sysFSDELETE
      [] a = FILE_ACTION_MODIFIED -> sysFSMODIFY
      [] a = FILE_ACTION_RENAMED_OLD_NAME -> sysFSMOVEDFROM
      [] a = FILE_ACTION_RENAMED_NEW_NAME -> sysFSMOVEDTO
      [] OTHER -> 0
\* the ReadDirectoryChangesW notify filter subscribed to for an internal mask
WindowsNotifyFilter(m) ==
    (IF HasBit(m, sysFSMODIFY) THEN FILE_NOTIFY_CHANGE_LAST_WRITE ELSE 0)
  + (IF HasBit(m, sysFSMOVEDFROM) \/ HasBit(m, sysFSMOVEDTO) \/ HasBit(m, sysFSCREATE) \/ HasBit(m, sysFSDELETE)
     THEN FILE_NOTIFY_CHANGE_FILE_NAME + FILE_NOTIFY_CHANGE_DIR_NAME ELSE 0)

\* which requested operation sets a backend accepts
Unportable == XOpen + XRead + XCloseWrite + XCloseRead
Supports(backend, ops) == IF backend = "inotify" THEN TRUE ELSE AndBits(ops % 512, Unportable) = 0

\* ---- renderings -----------------------------------------------------------
OpNames == << <<OpCreate, "CREATE">>, <<OpRemove, "REMOVE">>, <<OpWrite, "WRITE">>, <<XOpen, "OPEN">>, <<XRead, "READ">>,
              <<XCloseWrite, "CLOSE_WRITE">>, <<XCloseRead, "CLOSE_READ">>, <<OpRename, "RENAME">>, <<OpChmod, "CHMOD">> >>
RECURSIVE OpStringFrom(_, _)
OpStringFrom(o, i) ==
    IF i > Len(OpNames) THEN ""
    ELSE LET rest == OpStringFrom(o, i + 1)
         IN IF HasBit(o, OpNames[i][1])
            THEN OpNames[i][2] \o (IF rest = "" THEN "" ELSE "|" \o rest)
            ELSE rest
OpString(o) == LET s == OpStringFrom(o, 1) IN IF s = "" THEN "[no events]" ELSE s

RECURSIVE Spaces(_)
Spaces(n) == IF n <= 0 THEN "" ELSE " " \o Spaces(n - 1)
\* fmt "%-13s"
Pad13(s) == s \o Spaces(13 - Len(s))
\* Event.String: q(.) is strconv.Quote, uninterpreted here (the driver logs the quoted names)
EventString(op, qname, qfrom, sep) ==
    Pad13(OpString(op)) \o " " \o qname \o (IF qfrom = "" THEN "" ELSE sep \o qfrom)
=============================================================================

--------------------------- MODULE MC_EventsLagGen ---------------------------
(* Like MC_EventsGen, but with a lagging reader (Cap = 0 and nobody receiving): the reader reads what is queued,       *)
(* handles records until one yields an event and is parked in the send of that event with the rest of its buffer      *)
(* unhandled, while further operations queue records in the kernel - where identical neighbours merge - until the     *)
(* driver's "drain" receives everything.  inorun replays with an observation (quiescence) after every operation.      *)
EXTENDS InotifyEvents, Json

CONSTANT GenSteps
VARIABLES hist, draining
gvars == <<vars, hist, draining>>
GInit == Init /\ hist = <<>> /\ draining = FALSE
Lbl(x) == hist' = Append(hist, x)
Op(a) == \/ (Create(a) /\ Lbl(<<"create", a>>)) \/ (Write(a) /\ Lbl(<<"write", a>>)) \/ (Chmod(a) /\ Lbl(<<"chmod", a>>))
         \/ (Unlink(a) /\ Lbl(<<"unlink", a>>)) \/ (MoveOut(a) /\ Lbl(<<"moveout", a>>)) \/ (MoveIn(a) /\ Lbl(<<"movein", a>>))
         \/ \E b \in Names : Rename(a, b) /\ Lbl(<<"rename", a, b>>)
OpFd == \/ (Open /\ Lbl(<<"open", fmark>>)) \/ (FdWrite /\ Lbl(<<"fdwrite">>)) \/ (Release /\ Lbl(<<"release">>))
ReadAll == /\ buf = <<>> /\ out = NoEv /\ kq # <<>> /\ buf' = kq /\ kq' = <<>>
           /\ UNCHANGED <<present, fmark, w2end, held, hgone, prepd, cookie, nops, tab, out, ring, ridx, evq, want, got>>
Busy == (buf = <<>> /\ out = NoEv /\ kq # <<>>) \/ (buf # <<>> /\ out = NoEv)          \* the reader can go on by itself
GNext == \/ /\ Busy /\ (ReadAll \/ Handle) /\ UNCHANGED <<hist, draining>>
         \/ /\ ~Busy /\ draining /\ out # NoEv /\ Recv /\ UNCHANGED <<hist, draining>>
         \/ /\ ~Busy /\ draining /\ out = NoEv /\ draining' = FALSE /\ UNCHANGED <<vars, hist>>
         \/ /\ ~Busy /\ ~draining /\ out # NoEv /\ nops >= 1 /\ draining' = TRUE /\ Lbl(<<"drain">>) /\ UNCHANGED vars
         \/ /\ ~Busy /\ ~draining /\ nops < GenSteps /\ ((OpFd \/ \E a \in Names : Op(a))) /\ UNCHANGED draining
GSpec == GInit /\ [][GNext]_gvars
Emit == (nops = GenSteps /\ Drained /\ ~draining) =>
          PrintT(<<"SCN", ToJson([hist |-> hist, want |-> [i \in 1..Len(want) |-> Ideal(i)]])>>)
MCNames == {"x", "y"}
=============================================================================

------------------------------ MODULE OpsTrace ------------------------------
(***************************************************************************)
(* C15 / C16: the real translation tables and renderings, evaluated by     *)
(* harness/cmd/opsrun on their complete bounded input spaces, are compared *)
(* with Ops.tla.  Everything is decided in the POSTCONDITION; the spec has *)
(* a single state.  `Covered` demands that the recorded input sets are the *)
(* input sets the specification states (so a driver that skips inputs is   *)
(* not accepted).                                                          *)
(***************************************************************************)
EXTENDS Ops, Json, IOUtils, TLC, Bitwise, SequencesExt

TraceFile == IF "TRACE" \in DOMAIN IOEnv THEN IOEnv.TRACE ELSE "ops.ndjson"
OutFile   == IF "TRACE_OUT" \in DOMAIN IOEnv THEN IOEnv.TRACE_OUT ELSE "ops.out.json"
Trace == ndJsonDeserialize(TraceFile)
Line(k) == LET S == {i \in 1..Len(Trace) : Trace[i].k = k} IN Trace[CHOOSE i \in S : TRUE]

VARIABLE x
Init == x = 0
Next == x' = x
Spec == Init /\ [][Next]_x

Cap(S) == IF Cardinality(S) <= 5 THEN S ELSE LET q == SetToSeq(S) IN {q[i] : i \in 1..5}
PairBad(recs, F(_)) == {i \in 1..Len(recs) : recs[i][2] # F(recs[i][1])}
Inputs(recs) == {recs[i][1] : i \in 1..Len(recs)}

\* ---- C15 -------------------------------------------------------------------
InoMaskSet == {lo + (IF hi % 2 = 1 THEN IN_IGNORED ELSE 0) + (IF (hi \div 2) % 2 = 1 THEN IN_UNMOUNT ELSE 0)
                  + (IF (hi \div 4) % 2 = 1 THEN IN_Q_OVERFLOW ELSE 0) + (IF (hi \div 8) % 2 = 1 THEN IN_ISDIR ELSE 0)
               : lo \in 0..4095, hi \in 0..15}

InoEv  == Line("ino_ev").recs
InoReq == Line("ino_req").recs
Kq     == Line("kq")
Win    == Line("win")

InoEvBad  == PairBad(InoEv, InotifyOpOf)
InoEvCov  == Inputs(InoEv) = InoMaskSet
\* requested operations -> mark mask as the kernel holds it (fdinfo), and the Add succeeds iff some flag is requested
InoReqBad == {i \in 1..Len(InoReq) :
                LET r == InoReq[i] want == InotifyRequest(r.ops) IN
                ~( /\ r.supports = Supports("inotify", r.ops)
                   /\ IF want = 0 /\ ~r.nofollow THEN ~r.ok
                      ELSE r.ok /\ r.marks = 1 /\ (r.mask % 4096) = want )}
InoReqCov == {<<InoReq[i].ops, InoReq[i].nofollow>> : i \in 1..Len(InoReq)} = (0..511) \X BOOLEAN

KqBad     == PairBad(Kq.recs, KqueueOpOf)
KqCov     == Inputs(Kq.recs) = 0..2047
KqOther   == /\ Kq.sub = KqueueSubscription
             /\ \A i \in 1..512 : Kq.supports[i] = Supports("kqueue", i - 1)
             /\ \A i \in 1..Len(Kq.names) : Kq.names[i].out = IF Kq.names[i].link = "" THEN Kq.names[i].name ELSE Kq.names[i].link
             /\ Kq.opbits = AllOpBits

WinMaskSet == {lo + (IF hi = 1 THEN sysFSIGNORED ELSE 0) : lo \in 0..4095, hi \in 0..1}
WinBad    == PairBad(Win.recs, WindowsOpOf)
WinFBad   == PairBad(Win.filter, WindowsNotifyFilter)
WinABad   == PairBad(Win.actions, WindowsActionMask)
WinCov    == Inputs(Win.recs) = WinMaskSet /\ Inputs(Win.filter) = WinMaskSet /\ Inputs(Win.actions) = 0..7
WinOther  == /\ Win.all = sysFSALLEVENTS
             /\ \A i \in 1..512 : Win.supports[i] = Supports("windows", i - 1)

\* ---- C16 -------------------------------------------------------------------
Op     == Line("op")
EvStr  == Line("evstr")
Bit(s, i) == SubSeq(s, i, i) = "1"
HasBad == {i \in 1..Len(Op.vals) :
             \E p \in 1..Len(Op.probes) :
                LET want == (Op.vals[i][1] & Op.probes[p][1]) # 0 \/ (Op.vals[i][2] & Op.probes[p][2]) # 0 IN
                Bit(Op.has[i], 2 * p - 1) # want \/ Bit(Op.has[i], 2 * p) # want}
StrBad == {i \in 1..Len(Op.vals) : Op.str[i] # OpString(Op.vals[i][2])}
\* all 2^16 low values, sampled values above (values are logged as <<high 16 bits, low 16 bits>>)
OpCov  == /\ Op.nlow = 65536 /\ \A i \in 1..65536 : Op.vals[i] = <<0, i - 1>>
          /\ Len(Op.vals) > 65536 /\ \A i \in 65537..Len(Op.vals) : Op.vals[i][1] > 0
          /\ Len(Op.probes) >= 40 /\ {<<0, 0>>, <<0, 1>>, <<0, 3>>, <<0, 511>>, <<65535, 65535>>} \subseteq {Op.probes[p] : p \in 1..Len(Op.probes)}
EvStrBad == {i \in 1..Len(EvStr.recs) :
               LET r == EvStr.recs[i] IN r.str # EventString(r.op % 65536, r.qname, r.qfrom, EvStr.sep)}
EvStrCov == Len(EvStr.recs) >= 100 /\ \E i \in 1..Len(EvStr.recs) : EvStr.recs[i].qfrom # ""

Show(recs, S) == [i \in Cap(S) |-> recs[i]]

Result ==
  [ c15 |-> [ ino_ev |-> [n |-> Len(InoEv), bad |-> Cardinality(InoEvBad), ex |-> Show(InoEv, InoEvBad), covered |-> InoEvCov],
              ino_req |-> [n |-> Len(InoReq), bad |-> Cardinality(InoReqBad), ex |-> Show(InoReq, InoReqBad), covered |-> InoReqCov],
              kq |-> [n |-> Len(Kq.recs), bad |-> Cardinality(KqBad), ex |-> Show(Kq.recs, KqBad), covered |-> KqCov, other |-> KqOther],
              win |-> [n |-> Len(Win.recs), bad |-> Cardinality(WinBad), ex |-> Show(Win.recs, WinBad), covered |-> WinCov, other |-> WinOther],
              win_filter |-> [n |-> Len(Win.filter), bad |-> Cardinality(WinFBad), ex |-> Show(Win.filter, WinFBad), covered |-> TRUE],
              win_actions |-> [n |-> Len(Win.actions), bad |-> Cardinality(WinABad), ex |-> Show(Win.actions, WinABad), covered |-> TRUE] ],
    c16 |-> [ has |-> [n |-> Len(Op.vals) * Len(Op.probes) * 2, bad |-> Cardinality(HasBad), ex |-> [i \in Cap(HasBad) |-> <<Op.vals[i], Op.has[i]>>], covered |-> OpCov],
              str |-> [n |-> Len(Op.vals), bad |-> Cardinality(StrBad), ex |-> [i \in Cap(StrBad) |-> <<Op.vals[i], Op.str[i]>>], covered |-> OpCov],
              evstr |-> [n |-> Len(EvStr.recs), bad |-> Cardinality(EvStrBad), ex |-> Show(EvStr.recs, EvStrBad), covered |-> EvStrCov] ] ]

Accepted == JsonSerialize(OutFile, Result)
=============================================================================

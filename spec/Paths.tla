------------------------------ MODULE Paths ------------------------------
(* Paths as sequences of name tokens.  An absolute path (below the          *)
(* scenario root) starts with the marker "/"; the relative path "." is      *)
(* <<".">>.  Clean is filepath.Clean on component sequences.                *)
EXTENDS Integers, Sequences

PFront(s) == SubSeq(s, 1, Len(s) - 1)
LastOf(s) == s[Len(s)]

RECURSIVE CleanC(_, _, _)
\* cs: remaining components; acc: cleaned so far; abs: absolute?
CleanC(cs, acc, abs) ==
    IF cs = <<>> THEN acc
    ELSE LET c == Head(cs) IN
         IF c = "" \/ c = "." THEN CleanC(Tail(cs), acc, abs)
         ELSE IF c = ".." THEN
              IF acc # <<>> /\ LastOf(acc) # ".." THEN CleanC(Tail(cs), PFront(acc), abs)
              ELSE IF abs THEN CleanC(Tail(cs), acc, abs)
              ELSE CleanC(Tail(cs), Append(acc, ".."), abs)
         ELSE CleanC(Tail(cs), Append(acc, c), abs)

Clean(abs, cs) ==
    LET c == CleanC(cs, <<>>, abs) IN
    IF abs THEN <<"/">> \o c
    ELSE IF c = <<>> THEN <<".">> ELSE c

IsAbs(p) == p # <<>> /\ p[1] = "/"

\* filepath.Dir of a cleaned path
Dir(p) ==
    IF IsAbs(p) THEN (IF Len(p) <= 2 THEN <<"/">> ELSE PFront(p))
    ELSE IF Len(p) <= 1 THEN <<".">> ELSE PFront(p)

\* watch path + "/" + entry name
PJoin(p, n) == Append(p, n)

\* component-wise: q is p or lies below p
IsUnder(q, p) == Len(q) >= Len(p) /\ SubSeq(q, 1, Len(p)) = p
=============================================================================

SPECIFICATION Spec
CONSTANTS
  Names <- MCNames
  MaxOps = 4
  Cap = 0
  RingSize = 2
  WatchFile = TRUE
INVARIANTS InOrder Correlated NoLoss
CHECK_DEADLOCK FALSE

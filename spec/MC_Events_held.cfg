SPECIFICATION Spec
CONSTANTS
  Names <- MCNames
  MaxOps = 4
  Cap = 0
  RingSize = 2
  STRICT_REMOVE = FALSE
  WatchFile = TRUE
  HELD = TRUE
INVARIANTS InOrder Correlated NoLoss
CHECK_DEADLOCK FALSE

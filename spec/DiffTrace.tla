----------------------------- MODULE DiffTrace -----------------------------
(* C20: every recorded evaluation of ztest.Diff / ztest.DiffMatch is judged by Diff.tla.  Covered: the     *)
(* recorded Diff inputs include every pair of line sequences over {a,b,c} up to the recorded length.       *)
EXTENDS Integers, Sequences, FiniteSets, TLC, Json, IOUtils, SequencesExt

TraceFile == IF "TRACE" \in DOMAIN IOEnv THEN IOEnv.TRACE ELSE "diff.ndjson"
OutFile   == IF "TRACE_OUT" \in DOMAIN IOEnv THEN IOEnv.TRACE_OUT ELSE "diff.out.json"
Trace == ndJsonDeserialize(TraceFile)
Meta  == Trace[Len(Trace)]

D == INSTANCE Diff WITH Year <- Meta.year, Month <- Meta.month, Day <- Meta.day

VARIABLE x
Init == x = 0
Next == x' = x
Spec == Init /\ [][Next]_x

DiffIdx  == {i \in 1..Len(Trace) : Trace[i].k = "diff"}
MatchIdx == {i \in 1..Len(Trace) : Trace[i].k = "match"}
DiffBad  == {i \in DiffIdx : ~D!DiffOK(Trace[i])}
MatchBad == {i \in MatchIdx : ~D!MatchOK(Trace[i])}

RECURSIVE Pow(_, _)
Pow(b, e) == IF e = 0 THEN 1 ELSE b * Pow(b, e - 1)
NSeqs(n) == (Pow(3, n + 1) - 1) \div 2          \* number of sequences over 3 letters of length <= n
Small(s) == \A k \in 1..Len(s) : s[k] \in {"a", "b", "c"}
Covered ==
  LET n == Meta.len
      pairs == {<<Trace[i].a, Trace[i].b>> : i \in {j \in DiffIdx : Len(Trace[j].a) <= n /\ Len(Trace[j].b) <= n /\ Small(Trace[j].a) /\ Small(Trace[j].b)}}
  IN Cardinality(pairs) >= NSeqs(n) * NSeqs(n)
NonTrivial == Cardinality({i \in DiffIdx : ~Trace[i].empty}) + Cardinality({i \in MatchIdx : Trace[i].empty})

Cap(S) == IF Cardinality(S) <= 5 THEN S ELSE LET q == SetToSeq(S) IN {q[i] : i \in 1..5}
Accepted ==
  /\ TLCGet("stats").generated >= 0
  /\ JsonSerialize(OutFile, [diff |-> [n |-> Cardinality(DiffIdx), bad |-> Cardinality(DiffBad), ex |-> [i \in Cap(DiffBad) |-> Trace[i]]],
                          match |-> [n |-> Cardinality(MatchIdx), bad |-> Cardinality(MatchBad), ex |-> [i \in Cap(MatchBad) |-> Trace[i]]],
                          covered |-> Covered, nontrivial |-> NonTrivial, len |-> Meta.len])
=============================================================================

SPECIFICATION Spec
CONSTANTS
  Names <- MCNames
  MaxSteps = 6
  FIX_CLOSE = TRUE
  USER_NESTS = TRUE
  USER_REMOVES_ENTRIES = FALSE
  FIX_BYUSER = TRUE
INVARIANTS FdsMatch ListOK AllGone Released CreateOnce
CHECK_DEADLOCK FALSE

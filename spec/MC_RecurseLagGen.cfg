SPECIFICATION GSpec
CONSTANTS
  MaxIno = 5
  MaxSteps = 9
  GenSteps = 4
  FIX_BOUNDARY = TRUE
  FIX_REKEY = TRUE
  FIX_MOVED = TRUE
  FIX_RMALL = TRUE
  FIX_PATHKEY = TRUE
  FIX_ONLYDIR = TRUE
  REUSE_EARLY = FALSE
  FIX_ENOENT = TRUE
INVARIANT Emit
CHECK_DEADLOCK FALSE

---------------------------- MODULE InotifyTrace ----------------------------
(***************************************************************************)
(* Trace validation for the inotify backend: the NDJSON trace recorded by  *)
(* harness/cmd/inorun from the real Watcher is stepped through the         *)
(* property-level specification (Ideal.tla).  One action per kind of trace *)
(* line; the step relation is a function of the trace, so the properties   *)
(* are folded into ws.bad / viol (monitor mode) and written out by the     *)
(* POSTCONDITION, together with the high-water mark of consumed lines.     *)
(***************************************************************************)
EXTENDS Ideal, Json, IOUtils, SequencesExt

TraceFile == IF "TRACE" \in DOMAIN IOEnv THEN IOEnv.TRACE ELSE "trace.ndjson"
OutFile   == IF "TRACE_OUT" \in DOMAIN IOEnv THEN IOEnv.TRACE_OUT ELSE "trace.out.json"
Trace == ndJsonDeserialize(TraceFile)

VARIABLES l,      \* next line of Trace
          W,      \* watcher id -> Ideal state
          seq,    \* kernel records seen so far in this scenario
          g       \* per-scenario globals
vars == <<l, W, seq, g>>

(* Where the trace does not determine which expected entry a received event  *)
(* stands for, the step relation branches (Ideal!RecvEv).  Results are       *)
(* therefore collected outside the state, in TLC registers (-workers 1):     *)
(*   1: high-water mark of consumed lines                                    *)
(*   3: scenario id -> result of the branch with the fewest violations       *)
(* so that all branches of a scenario converge again at its "end" line.      *)

G0 == [id |-> "", fam |-> "", maxq |-> 16384, defcap |-> 0, gbad |-> <<>>, ifds |-> 0, gor |-> 0, start |-> 0, infra |-> <<>>, events |-> 0,
       lastobs |-> [nwd |-> -1, npath |-> -1, nmarks |-> -1, paths |-> {}], drift |-> <<>>,
       got |-> <<>>]      \* events received so far (kept only for behaviours generated from the event model, family tlcev)

Init == /\ l = 1 /\ W = EmptyFn /\ seq = 0 /\ g = G0
        /\ TLCSet(1, 1) /\ TLCSet(3, EmptyFn)

Line == Trace[l]
IsKind(k) == l <= Len(Trace) /\ Line.k = k
Next1 == l' = l + 1

GBad(props, cause) == [g EXCEPT !.gbad = Append(@, [props |-> props, cause |-> cause])]
Infra(what) == [g EXCEPT !.infra = Append(@, what)]

OpenWs == {w \in DOMAIN W : W[w].phase = "open"}

\* ---- reset / end ---------------------------------------------------------
Reset == /\ IsKind("reset")
         /\ W' = EmptyFn /\ seq' = 0
         /\ g' = [G0 EXCEPT !.id = Line.id, !.fam = Line.fam, !.maxq = Line.maxq, !.defcap = Line.defcap, !.start = l]
         /\ Next1

Flush(id) ==
  LET ws == SetToSeq(DOMAIN W)
      \* with several Watchers in the scenario a wrong event stream also contradicts C14 (independence of other Watchers)
      Props1(p) == IF Cardinality(DOMAIN W) > 1 /\ p \cap {"C01", "C02", "C03", "C08", "C09", "C11"} # {} THEN p \cup {"C14"} ELSE p
      \* ... and with a recursive watch, C19 (true paths, exactly its own tree)
      Props2(w, p) == IF W[w].recursive /\ p \cap {"C01", "C02", "C03", "C08", "C09"} # {} THEN p \cup {"C19"} ELSE p
      \* ... and in the families that add with explicit operation sets, C15 (what was asked for is observable, nothing else is reported)
      Props3(p) == IF g.fam \in {"withops", "reops"} /\ p \cap {"C01", "C02"} # {} THEN p \cup {"C15"} ELSE p
      perW == [k \in 1..Len(ws) |-> [b \in 1..Len(W[ws[k]].bad) |->
                  [id |-> id, w |-> ws[k], props |-> Props3(Props2(ws[k], Props1(W[ws[k]].bad[b].props))), cause |-> W[ws[k]].bad[b].cause]]]
      glob == [b \in 1..Len(g.gbad) |-> [id |-> id, w |-> "", props |-> g.gbad[b].props, cause |-> g.gbad[b].cause]]
  IN FlattenSeq(perW) \o glob

End == /\ IsKind("end")
       /\ LET mine == [viol |-> Flush(Line.id), tags |-> UNION {W[w].nontriv : w \in DOMAIN W},
                       fog |-> \E w \in DOMAIN W : W[w].fog, records |-> seq, events |-> g.events,
                       infra |-> g.infra, lines |-> l - g.start + 1, drift |-> g.drift]
              cur  == TLCGet(3)
          IN TLCSet(3, IF Line.id \in DOMAIN cur /\ Len(cur[Line.id].viol) <= Len(mine.viol) THEN cur ELSE (Line.id :> mine) @@ cur)
       /\ W' = EmptyFn /\ seq' = 0 /\ g' = G0 /\ Next1

\* ---- NewWatcher -----------------------------------------------------------
New == /\ IsKind("new")
       /\ IF Line.ret = "ok"
          THEN /\ W' = (Line.w :> InitW(Line.cap)) @@ W
               /\ g' = LET want == IF Line.cap < 0 THEN g.defcap ELSE Line.cap
                           g1 == [g EXCEPT !.ifds = Line.ifds, !.gor = Line.gor] IN
                       IF Line.obscap # want
                       THEN [g1 EXCEPT !.gbad = Append(@, [props |-> {"C14"}, cause |-> "capacity"])] ELSE g1
          ELSE /\ W' = W
               /\ g' = IF ~Line.fault THEN Infra("NewWatcher failed: " \o Line.ret)
                       ELSE IF Line.ifds # g.ifds \/ Line.gor # g.gor
                       THEN GBad({"C13"}, "failed_new_leaks") ELSE g
       /\ UNCHANGED seq /\ Next1

\* ---- filesystem step: the kernel records it produced -----------------------
ApplyAll(ws0, recs, base, maxq, unordered) ==
  LET ws == IF unordered /\ Cardinality({k \in 1..Len(recs) : HasBit(recs[k].m, IN_MOVED_FROM) /\ recs[k].ino \in DOMAIN ws0.uw}) > 10
            THEN [ws0 EXCEPT !.flags = @ \cup {"manymoves"}] ELSE ws0 IN
  IF recs = <<>> THEN ws
  ELSE FoldLeft(LAMBDA acc, k : ApplyRec(acc, recs[k], base + k, maxq, unordered), ws, [k \in 1..Len(recs) |-> k])

\* which record of this step names the created / moved directory in its parent
ParentOf(recs, bit) == LET S == {k \in 1..Len(recs) : HasBit(recs[k].m, bit) /\ HasBit(recs[k].m, IN_ISDIR)} IN
                       IF S = {} THEN [ino |-> "", n |-> ""] ELSE LET k == CHOOSE k \in S : TRUE IN [ino |-> recs[k].ino, n |-> recs[k].n]
\* a watched file was unlinked but lives on (open descriptor / other link): no DELETE_SELF among the records
Unlinked(ws, ln) ==
  IF ln.op = "unlink" /\ ln.ret = "ok" /\ ln.ino \in DOMAIN ws.uw
     /\ ~\E k \in 1..Len(ln.shadow) : ln.shadow[k].ino = ln.ino /\ HasBit(ln.shadow[k].m, IN_DELETE_SELF)
  THEN Note([ws EXCEPT !.uoInos = @ \cup {ln.ino}], "unlinked_while_open") ELSE ws

DirBook(ws, ln) ==
  IF ~ws.recursive \/ ln.ret # "ok" THEN ws
  ELSE IF ln.op = "mkdir" THEN LET p == ParentOf(ln.shadow, IN_CREATE) IN CoverNewDir(ws, p.ino, p.n, ln.ino)
  ELSE IF ln.op \in {"rename", "rename2"} /\ ln.kind = "dir" THEN LET p == ParentOf(ln.shadow, IN_MOVED_TO) IN MoveDir(ws, ln.ino, p.ino, p.n)
  \* a name inside the tree now is a symbolic link to itself: if a directory was created under that name and the
  \* reader has not got to it yet, watching it fails with ELOOP and that is reported on Errors
  ELSE IF ln.op = "symloop" THEN [ws EXCEPT !.flags = @ \cup {"regloop"}]
  ELSE ws

\* Which removal does a watched parent directory of this Watcher report?  The operation removes ONE name (unlink, rmdir): its
\* object is Line.ino, and the parent reports it iff the kernel queued IN_DELETE for a directory this Watcher watches for it.
\* Lines that carry the records of several operations (bursts, rm -r, concurrent threads) do not say which entry a given
\* IN_DELETE belongs to: undetermined.
ParentReports(ws, ln) ==
  IF ln.op \in {"rep", "par", "rmrf"}
  THEN \* the directories of this Watcher that reported some removal in this line; a watched inode may be what one of them
       \* reported unless it is the only reporter itself (nothing is its own parent: the working directory watched as ".")
       LET R == {ln.shadow[k].ino : k \in {j \in 1..Len(ln.shadow) : HasBit(ln.shadow[j].m, IN_DELETE) /\ ln.shadow[j].ino \in DOMAIN ws.uw}}
       IN [ws EXCEPT !.prepU = @ \cup {i \in DOMAIN ws.uw : R \ {i} # {}}]
  ELSE IF ln.op \in {"unlink", "rmdir"} /\ ln.ret = "ok" /\ ln.ino \in DOMAIN ws.uw
          /\ \E k \in 1..Len(ln.shadow) : /\ HasBit(ln.shadow[k].m, IN_DELETE) /\ ln.shadow[k].ino \in DOMAIN ws.uw
                                           /\ ws.uw[ln.shadow[k].ino].st = "live" /\ HasBit(ws.uw[ln.shadow[k].ino].mask, IN_DELETE)
  THEN [ws EXCEPT !.prep = @ \cup {ln.ino}]
  ELSE ws
Fs == /\ IsKind("fs")
      /\ W' = [w \in DOMAIN W |-> [Unlinked(DirBook(ApplyAll(ParentReports(W[w], Line), Line.shadow, seq, g.maxq, Line.op = "par"), Line), Line)
                                     EXCEPT !.prepAmb = FALSE]]
      /\ seq' = seq + Len(Line.shadow)
      /\ g' = IF \E k \in 1..Len(Line.shadow) : Line.shadow[k].ino \in {"?", "overflow"}
              THEN Infra("shadow record without object") ELSE g
      /\ Next1

\* ---- API calls -------------------------------------------------------------
Fog(ws) == [ws EXCEPT !.fog = TRUE]
FlagCtx(ws) == IF "msgone" \in ws.flags THEN ":error_pending_after_move_then_delete"
               ELSE IF ws.ovf THEN ":overflow_pending" ELSE ""
\* a control call that does not come back: Close in particular also fails to close the channels (C06) and to
\* release the resources (C13); Add/Remove stuck behind a pending overflow report also break C10's "keeps accepting"
\* (a call that waits for the consumer is a deadlock between the caller and the reader goroutine: C07 too)
BlockedProps(ws, op) == {"C05", "C07"} \cup (IF op = "close" THEN {"C06", "C13"} ELSE {})
                               \cup (IF ws.ovf /\ op \in {"add", "remove"} THEN {"C10"} ELSE {})

CallResult(ws, c) ==
  IF c.ret = "blocked" THEN LET b == Fog(Bad(ws, BlockedProps(ws, c.op), "blocked:" \o c.op \o FlagCtx(ws))) IN
                            IF c.op = "close" THEN [RelaxAll(b) EXCEPT !.phase = "closing"] ELSE b
  ELSE IF c.ret = "pending" THEN LET b == Fog(Note(ws, "async")) IN
                            IF c.op = "close" THEN [RelaxAll(b) EXCEPT !.phase = "closing"] ELSE b
  ELSE CASE c.op = "add" ->
              IF c.recurse THEN IdealAddRec(ws, Clean(c.abs, c.arg), IF c.reserr = "" /\ c.reskind # "dir" THEN "ENOTDIR" ELSE c.reserr,
                                            IF "tree" \in DOMAIN c THEN c.tree ELSE <<>>,
                                            InotifyRequest(IF c.ops = -1 THEN DefaultOps ELSE c.ops), c.ret)
              ELSE IdealAdd(ws, Clean(c.abs, c.arg), c.resino, c.reserr,
                            InotifyRequest(IF c.ops = -1 THEN DefaultOps ELSE c.ops), c.ret)
         [] c.op = "remove"    -> IF c.recurse THEN IdealRemoveRec(ws, Clean(c.abs, c.arg), c.ret)
                                  ELSE IdealRemove(ws, Clean(c.abs, c.arg), c.ret)
         [] c.op = "watchlist" -> CheckWL(ws, c.wl, c.wlnil)
         [] c.op = "close"     -> IdealClose(ws, c.ret)
         [] OTHER -> ws

Call == /\ IsKind("call")
        /\ IF Line.w \in DOMAIN W
           THEN W' = [W EXCEPT ![Line.w] = IF Line.op = "watchlist" THEN [CallResult(@, Line) EXCEPT !.wlSeq = seq] ELSE CallResult(@, Line)] /\ g' = g
           ELSE W' = W /\ g' = Infra("call on unknown watcher")
        /\ UNCHANGED seq /\ Next1

\* an asynchronous call came back (or is confirmed blocked)
JoinResult(ws, c) ==
  IF c.ret = "blocked" THEN Bad(ws, BlockedProps(ws, c.op), "blocked:" \o c.op \o FlagCtx(ws))
  ELSE IF c.op = "close" THEN IdealClose(ws, c.ret)
  ELSE ws

JoinT == /\ IsKind("join")
         /\ IF Line.w \in DOMAIN W
            THEN W' = [W EXCEPT ![Line.w] = JoinResult(@, Line)] /\ g' = g
            ELSE W' = W /\ g' = g
         /\ UNCHANGED seq /\ Next1

\* ---- consumer --------------------------------------------------------------
EvsOf(vals) == LET evs == SelectSeq(vals, LAMBDA v : v.t = "ev") IN
               [i \in 1..Len(evs) |-> [name |-> evs[i].name, op |-> evs[i].op, from |-> evs[i].from]]
Recv == /\ IsKind("recv")
        /\ IF Line.w \in DOMAIN W
           THEN \E nws \in RecvVal(W[Line.w], Line.ch, Line.val) : W' = [W EXCEPT ![Line.w] = nws]
           ELSE W' = W
        /\ g' = IF ~Line.q THEN Infra("not quiescent at recv")
                ELSE [g EXCEPT !.events = @ + 1, !.got = IF g.fam = "tlcev" THEN @ \o EvsOf(<<Line.val>>) ELSE @]
        /\ UNCHANGED seq /\ Next1

DrainEnd(w1, d) ==
  CASE d.end = "idle"   -> IF w1.phase = "closed" /\ ~(w1.evc /\ w1.errc)
                           THEN Bad(w1, {"C06"}, "channels_not_closed_after_close") ELSE Settle(w1)
    [] d.end = "closed" -> IF w1.phase = "open" THEN Bad(w1, {"C06"}, "channel_closed_without_close")
                           ELSE IF w1.postClose > (IF w1.cap < 0 THEN 0 ELSE w1.cap) THEN Bad(w1, {"C06"}, "events_after_close") ELSE w1
    [] OTHER -> w1      \* "partial": only one channel was received from; nothing is settled

DrainW(ws0, d) ==
  LET \* hundreds of errors in a row with no fault injected: the reader is stuck reporting the same failure, nothing else is delivered
      ws == IF d.end = "flood" THEN Bad(ws0, {"C10", "C01"}, "error_flood") ELSE ws0
      S == IF d.vals = <<>> THEN {ws}
           ELSE FoldLeft(LAMBDA acc, v : UNION {RecvVal(x, v.ch, v) : x \in acc}, {ws}, d.vals)
  IN {DrainEnd(x, d) : x \in S}

Drain == /\ IsKind("drain")
         /\ IF Line.w \in DOMAIN W
            THEN \E nws \in DrainW(W[Line.w], Line) : W' = [W EXCEPT ![Line.w] = nws]
            ELSE W' = W
         /\ g' = IF Line.end \in {"unquiet", "max"} THEN Infra("drain ended " \o Line.end)
                 ELSE [g EXCEPT !.events = @ + Len(Line.vals), !.got = IF g.fam = "tlcev" THEN @ \o EvsOf(Line.vals) ELSE @]
         /\ UNCHANGED seq /\ Next1

\* ---- observation -------------------------------------------------------------
ObsW(ws, o) ==
  LET w1 == CheckObs(ws, o, g.defcap) IN
  IF w1.phase = "closed" /\ w1.evc /\ w1.errc /\ o.rd # "gone"
  THEN Bad(w1, {"C13"}, "leak:goroutine") ELSE w1

\* descriptors are counted per process: every Watcher that is not completely closed may hold one
\* a listed path below the scenario root as one string ("a/ab"), whether it was added absolute or relative
JoinRel(p) == LET q == IF Len(p) > 0 /\ p[1] = "/" THEN Tail(p) ELSE p IN
              FoldLeft(LAMBDA acc, c : IF acc = "" THEN c ELSE acc \o "/" \o c, "", q)
Obs == /\ IsKind("obs")
       /\ IF Line.w \in DOMAIN W
          THEN W' = [W EXCEPT ![Line.w] = ObsW(@, Line)]
          ELSE W' = W
       /\ g' = LET g1 == [g EXCEPT !.ifds = Line.ifds, !.gor = Line.gor,
                                     !.lastobs = [nwd |-> Line.nwd, npath |-> Line.npath, nmarks |-> Len(Line.marks),
                                                  paths |-> {JoinRel(Line.paths[i]) : i \in 1..Len(Line.paths)}]]
                   alive == {w \in DOMAIN W' : ~(W'[w].phase = "closed" /\ W'[w].evc /\ W'[w].errc)} IN
               IF ~Line.q THEN [g1 EXCEPT !.infra = Append(@, "not quiescent at obs")]
               ELSE IF Line.pending = <<>> /\ Line.ifds > Cardinality(alive)
               THEN [g1 EXCEPT !.gbad = Append(@, [props |-> {"C13"}, cause |-> "leak:descriptor"])]
               ELSE IF Line.pending = <<>> /\ alive = {} /\ Line.gor # 0
               THEN [g1 EXCEPT !.gbad = Append(@, [props |-> {"C13"}, cause |-> "leak:goroutine"])]
               ELSE IF Line.childifds > 0     \* a child process started meanwhile holds the instance: Close releases nothing
               THEN [g1 EXCEPT !.gbad = Append(@, [props |-> {"C13"}, cause |-> "leak:descriptor_inherited_by_child_process"])]
               ELSE g1
       /\ UNCHANGED seq /\ Next1

\* ---- spec -> code: the state the code-shaped model (InotifyTables, via MC_WatchSetGen) predicted for the observation
\* just made.  A difference means the model no longer describes the code: MODEL-DRIFT, not a verdict on a property.
Model == /\ IsKind("model")
         /\ g' = LET o == g.lastobs
                     same == o.nwd = Line.nwd /\ o.npath = Line.npath /\ o.nmarks = Line.nmarks
                             /\ o.paths = {Line.wl[i] : i \in 1..Len(Line.wl)} IN
                 IF same THEN g ELSE [g EXCEPT !.drift = Append(@, [model |-> [nwd |-> Line.nwd, npath |-> Line.npath, nmarks |-> Line.nmarks], observed |-> [nwd |-> o.nwd, npath |-> o.npath, nmarks |-> o.nmarks]])]
         /\ UNCHANGED <<W, seq>> /\ Next1

\* ... and what the event model (InotifyEvents, via MC_EventsGen) says the user receives for this history: its own small
\* kernel and its transcription of handleEvent/newEvent.  A difference is MODEL-DRIFT (the verdict on the properties
\* comes, as always, from the shadow instance and Ideal).
\* The model reads a whole operation's records at once; the real reader may wake up between two records of one system call,
\* and what it has not read yet can still merge with an identical record that follows (kernel tail merge): the observed
\* sequence may lack an event that is identical to its predecessor in the model's sequence.
RECURSIVE SameUpToMergeFrom(_, _, _, _)
SameUpToMergeFrom(want, got, i, j) ==
  IF i > Len(want) THEN j > Len(got)
  ELSE \/ (j <= Len(got) /\ want[i] = got[j] /\ SameUpToMergeFrom(want, got, i + 1, j + 1))
       \/ (i > 1 /\ want[i] = want[i - 1] /\ SameUpToMergeFrom(want, got, i + 1, j))
SameUpToMerge(want, got) == SameUpToMergeFrom(want, got, 1, 1)
Evmodel == /\ IsKind("evmodel")
           /\ g' = LET want == [i \in 1..Len(Line.want) |-> [name |-> Line.want[i].name, op |-> Line.want[i].op, from |-> Line.want[i].from]] IN
                   IF SameUpToMerge(want, g.got) THEN g ELSE [g EXCEPT !.drift = Append(@, [model |-> want, observed |-> g.got])]
           /\ UNCHANGED <<W, seq>> /\ Next1

\* fault injection: the recorded flags of a watch were made invalid; registering the next new sub-directory of that
\* recursive watch fails with EINVAL, which is reported on Errors (a genuine failure)
Wflags == /\ IsKind("wflags")
          /\ W' = IF Line.w \in DOMAIN W /\ Line.ok THEN [W EXCEPT ![Line.w] = [@ EXCEPT !.flags = @ \cup {"regfault"}]] ELSE W
          /\ g' = IF Line.ok THEN g ELSE Infra("wflags: no such watch")
          /\ UNCHANGED seq /\ Next1

\* ---- the worker process died inside this scenario ---------------------------
Crash == /\ IsKind("crash")
         /\ g' = IF Line.go THEN GBad({"*"}, "crash:" \o Line.cls)
                 ELSE Infra("worker died without a Go panic, fatal error or race report (" \o Line.cls \o ")")
         /\ UNCHANGED <<W, seq>> /\ Next1

\* fault injection: the next read(2) on the inotify descriptor fails once
Fault == /\ IsKind("fault")
         \* (while the fault is on every read fails; once it is off, the failure the reader is parked reporting is still owed)
         /\ W' = IF Line.w \notin DOMAIN W THEN W
                 ELSE IF Line.on THEN [W EXCEPT ![Line.w] = [@ EXCEPT !.flags = @ \cup {"readfault", "readfault_on"}]]
                 ELSE [W EXCEPT ![Line.w] = [@ EXCEPT !.flags = @ \ {"readfault_on"}]]
         /\ UNCHANGED <<seq, g>> /\ Next1

Other == /\ l <= Len(Trace) /\ Line.k \in {"recurse", "bad", "chdir", "spawn", "sleep"}
         /\ g' = IF Line.k = "bad" THEN Infra("bad step") ELSE g
         /\ UNCHANGED <<W, seq>> /\ Next1

Next == (Reset \/ End \/ New \/ Fs \/ Call \/ JoinT \/ Recv \/ Drain \/ Obs \/ Model \/ Evmodel \/ Fault \/ Wflags \/ Crash \/ Other)
        /\ TLCSet(1, IF TLCGet(1) > l' THEN TLCGet(1) ELSE l')

Spec == Init /\ [][Next]_vars

\* every line was consumed; results are written for bin/check
Accepted ==
  LET hw == TLCGet(1)
      R  == TLCGet(3)
      ids == SetToSeq(DOMAIN R) IN
  /\ JsonSerialize(OutFile, [consumed |-> hw - 1, total |-> Len(Trace),
                              results |-> [k \in 1..Len(ids) |-> [id |-> ids[k], r |-> R[ids[k]]]]])
  /\ hw - 1 = Len(Trace)
=============================================================================

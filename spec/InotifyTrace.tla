---------------------------- MODULE InotifyTrace ----------------------------
(***************************************************************************)
(* Trace validation for the inotify backend: the NDJSON trace recorded by  *)
(* harness/cmd/inorun from the real Watcher is stepped through the         *)
(* property-level specification (Ideal.tla).  One action per kind of trace *)
(* line; the step relation is a function of the trace, so the properties   *)
(* are folded into ws.bad / viol (monitor mode) and written out by the     *)
(* POSTCONDITION, together with the high-water mark of consumed lines.     *)
(***************************************************************************)
EXTENDS Ideal, Json, IOUtils, SequencesExt

TraceFile == IF "TRACE" \in DOMAIN IOEnv THEN IOEnv.TRACE ELSE "trace.ndjson"
OutFile   == IF "TRACE_OUT" \in DOMAIN IOEnv THEN IOEnv.TRACE_OUT ELSE "trace.out.json"
Trace == ndJsonDeserialize(TraceFile)

VARIABLES l,      \* next line of Trace
          W,      \* watcher id -> Ideal state
          seq,    \* kernel records seen so far in this scenario
          g,      \* per-scenario globals
          viol,   \* violations found so far: [id, line, w, props, cause]
          stats   \* what was covered (for the evidence file)
vars == <<l, W, seq, g, viol, stats>>

G0 == [id |-> "", fam |-> "", maxq |-> 16384, defcap |-> 0, gbad |-> <<>>, ifds |-> 0, gor |-> 0, start |-> 0, infra |-> <<>>]

Init == /\ l = 1 /\ W = EmptyFn /\ seq = 0 /\ g = G0 /\ viol = <<>>
        /\ stats = [scenarios |-> 0, lines |-> 0, nontrivial |-> 0, tags |-> {}, infra |-> <<>>, fogged |-> 0, events |-> 0, records |-> 0]

Line == Trace[l]
IsKind(k) == l <= Len(Trace) /\ Line.k = k
Next1 == l' = l + 1

GBad(props, cause) == [g EXCEPT !.gbad = Append(@, [props |-> props, cause |-> cause])]
Infra(what) == [g EXCEPT !.infra = Append(@, what)]

OpenWs == {w \in DOMAIN W : W[w].phase = "open"}

\* ---- reset / end ---------------------------------------------------------
Reset == /\ IsKind("reset")
         /\ W' = EmptyFn /\ seq' = 0
         /\ g' = [G0 EXCEPT !.id = Line.id, !.fam = Line.fam, !.maxq = Line.maxq, !.defcap = Line.defcap, !.start = l]
         /\ UNCHANGED <<viol, stats>> /\ Next1

Flush(id) ==
  LET ws == SetToSeq(DOMAIN W)
      perW == [k \in 1..Len(ws) |-> [b \in 1..Len(W[ws[k]].bad) |->
                  [id |-> id, w |-> ws[k], props |-> W[ws[k]].bad[b].props, cause |-> W[ws[k]].bad[b].cause]]]
      glob == [b \in 1..Len(g.gbad) |-> [id |-> id, w |-> "", props |-> g.gbad[b].props, cause |-> g.gbad[b].cause]]
  IN FlattenSeq(perW) \o glob

End == /\ IsKind("end")
       /\ viol' = viol \o Flush(Line.id)
       /\ LET tags == UNION {W[w].nontriv : w \in DOMAIN W} IN
          stats' = [stats EXCEPT !.scenarios = @ + 1, !.lines = l,
                                 !.nontrivial = @ + (IF tags # {} THEN 1 ELSE 0),
                                 !.tags = @ \cup tags,
                                 !.fogged = @ + (IF \E w \in DOMAIN W : W[w].fog THEN 1 ELSE 0),
                                 !.records = @ + seq,
                                 !.infra = IF g.infra # <<>> /\ Len(@) < 10 THEN Append(@, [id |-> Line.id, what |-> g.infra[1]]) ELSE @]
       /\ W' = EmptyFn /\ seq' = 0 /\ g' = G0 /\ Next1

\* ---- NewWatcher -----------------------------------------------------------
New == /\ IsKind("new")
       /\ IF Line.ret = "ok"
          THEN /\ W' = (Line.w :> InitW(Line.cap)) @@ W
               /\ g' = LET want == IF Line.cap < 0 THEN g.defcap ELSE Line.cap
                           g1 == [g EXCEPT !.ifds = Line.ifds, !.gor = Line.gor] IN
                       IF Line.obscap # want
                       THEN [g1 EXCEPT !.gbad = Append(@, [props |-> {"C14"}, cause |-> "capacity"])] ELSE g1
          ELSE /\ W' = W
               /\ g' = IF ~Line.fault THEN Infra("NewWatcher failed: " \o Line.ret)
                       ELSE IF Line.ifds # g.ifds \/ Line.gor # g.gor
                       THEN GBad({"C13"}, "failed_new_leaks") ELSE g
       /\ UNCHANGED <<seq, viol, stats>> /\ Next1

\* ---- filesystem step: the kernel records it produced -----------------------
ApplyAll(ws, recs, base, maxq) ==
  IF recs = <<>> THEN ws
  ELSE FoldLeft(LAMBDA acc, k : ApplyRec(acc, recs[k], base + k, maxq), ws, [k \in 1..Len(recs) |-> k])

Fs == /\ IsKind("fs")
      /\ W' = [w \in DOMAIN W |-> ApplyAll(W[w], Line.shadow, seq, g.maxq)]
      /\ seq' = seq + Len(Line.shadow)
      /\ g' = IF \E k \in 1..Len(Line.shadow) : Line.shadow[k].ino \in {"?", "overflow"}
              THEN Infra("shadow record without object") ELSE g
      /\ UNCHANGED <<viol, stats>> /\ Next1

\* ---- API calls -------------------------------------------------------------
Fog(ws) == [ws EXCEPT !.fog = TRUE]
FlagCtx(ws) == IF "msgone" \in ws.flags THEN ":error_pending_after_move_then_delete" ELSE ""

CallResult(ws, c) ==
  IF c.ret = "blocked" THEN Fog(Bad(ws, {"C05"}, "blocked:" \o c.op \o FlagCtx(ws)))
  ELSE IF c.ret = "pending" THEN Fog(Note(ws, "async"))
  ELSE CASE c.op = "add" ->
              IF c.recurse THEN Fog(ws)
              ELSE IdealAdd(ws, Clean(c.abs, c.arg), c.resino, c.reserr,
                            InotifyRequest(IF c.ops = -1 THEN DefaultOps ELSE c.ops), c.ret)
         [] c.op = "remove"    -> IdealRemove(ws, Clean(c.abs, c.arg), c.ret)
         [] c.op = "watchlist" -> CheckWL(ws, c.wl, c.wlnil)
         [] c.op = "close"     -> IdealClose(ws, c.ret)
         [] OTHER -> ws

Call == /\ IsKind("call")
        /\ IF Line.w \in DOMAIN W
           THEN W' = [W EXCEPT ![Line.w] = CallResult(@, Line)] /\ g' = g
           ELSE W' = W /\ g' = Infra("call on unknown watcher")
        /\ UNCHANGED <<seq, viol, stats>> /\ Next1

\* an asynchronous call came back (or is confirmed blocked)
JoinResult(ws, c) ==
  IF c.ret = "blocked" THEN Bad(ws, {"C05"}, "blocked:" \o c.op \o FlagCtx(ws))
  ELSE IF c.op = "close" THEN IdealClose(ws, c.ret)
  ELSE ws

JoinT == /\ IsKind("join")
        /\ IF Line.w \in DOMAIN W
           THEN W' = [W EXCEPT ![Line.w] = JoinResult(@, Line)] /\ g' = g
           ELSE W' = W /\ g' = g
        /\ UNCHANGED <<seq, viol, stats>> /\ Next1

\* ---- consumer --------------------------------------------------------------
Recv == /\ IsKind("recv")
        /\ IF Line.w \in DOMAIN W
           THEN W' = [W EXCEPT ![Line.w] = RecvVal(@, Line.ch, Line.val)]
           ELSE W' = W
        /\ g' = IF ~Line.q THEN Infra("not quiescent at recv") ELSE g
        /\ stats' = [stats EXCEPT !.events = @ + 1]
        /\ UNCHANGED <<seq, viol>> /\ Next1

DrainW(ws, d) ==
  LET w1 == IF d.vals = <<>> THEN ws ELSE FoldLeft(LAMBDA acc, v : RecvVal(acc, v.ch, v), ws, d.vals)
  IN CASE d.end = "idle"   -> IF w1.phase = "closed" /\ ~(w1.evc /\ w1.errc)
                               THEN Bad(w1, {"C06"}, "channels_not_closed_after_close") ELSE Settle(w1)
       [] d.end = "closed" -> IF w1.phase # "closed" THEN Bad(w1, {"C06"}, "channel_closed_without_close")
                              ELSE IF w1.postClose > (IF w1.cap < 0 THEN 0 ELSE w1.cap) THEN Bad(w1, {"C06"}, "events_after_close") ELSE w1
       [] OTHER -> w1

Drain == /\ IsKind("drain")
         /\ IF Line.w \in DOMAIN W
            THEN W' = [W EXCEPT ![Line.w] = DrainW(@, Line)]
            ELSE W' = W
         /\ g' = IF Line.end \in {"unquiet", "max"} THEN Infra("drain ended " \o Line.end) ELSE g
         /\ stats' = [stats EXCEPT !.events = @ + Len(Line.vals)]
         /\ UNCHANGED <<seq, viol>> /\ Next1

\* ---- observation -------------------------------------------------------------
ObsW(ws, o) ==
  LET w1 == CheckObs(ws, o, g.defcap) IN
  IF w1.phase = "closed" /\ w1.evc /\ w1.errc /\ (o.fdopen \/ o.rd # "gone" \/ Len(o.marks) > 0)
  THEN Bad(w1, {"C13"}, IF o.fdopen THEN "leak:descriptor" ELSE "leak:goroutine") ELSE w1

Obs == /\ IsKind("obs")
       /\ IF Line.w \in DOMAIN W
          THEN W' = [W EXCEPT ![Line.w] = ObsW(@, Line)]
          ELSE W' = W
       /\ g' = LET g1 == [g EXCEPT !.ifds = Line.ifds, !.gor = Line.gor]
                   allClosed == \A w \in DOMAIN W' : W'[w].phase = "closed" /\ W'[w].evc /\ W'[w].errc IN
               IF ~Line.q THEN [g1 EXCEPT !.infra = Append(@, "not quiescent at obs")]
               ELSE IF allClosed /\ Line.pending = <<>> /\ (Line.ifds # 0 \/ Line.gor # 0)
               THEN [g1 EXCEPT !.gbad = Append(@, [props |-> {"C13"}, cause |-> IF Line.ifds # 0 THEN "leak:descriptor" ELSE "leak:goroutine"])]
               ELSE g1
       /\ UNCHANGED <<seq, viol, stats>> /\ Next1

\* ---- the worker process died inside this scenario ---------------------------
Crash == /\ IsKind("crash")
         /\ g' = GBad({"*"}, "crash:" \o Line.cls)
         /\ UNCHANGED <<W, seq, viol, stats>> /\ Next1

Other == /\ l <= Len(Trace) /\ Line.k \in {"recurse", "bad"}
         /\ g' = IF Line.k = "bad" THEN Infra("bad step") ELSE g
         /\ UNCHANGED <<W, seq, viol, stats>> /\ Next1

Next == (Reset \/ End \/ New \/ Fs \/ Call \/ JoinT \/ Recv \/ Drain \/ Obs \/ Crash \/ Other)
        /\ TLCSet(1, [l |-> l', viol |-> viol', stats |-> stats'])

Spec == Init /\ [][Next]_vars

\* every line was consumed; results are written for bin/check
Accepted ==
  LET r == TLCGet(1) IN
  /\ JsonSerialize(OutFile, [consumed |-> r.l - 1, total |-> Len(Trace), viol |-> r.viol, stats |-> r.stats])
  /\ r.l - 1 = Len(Trace)
=============================================================================

SPECIFICATION Spec
CONSTANTS
  MaxSteps = 6
  MaxIno = 4
  FIX_REPOINT = TRUE
  OPS = FALSE
  MASK_ADD = TRUE
  MAXQ = 0
  ALIAS_OPS = FALSE
INVARIANTS NoPanic TablesAgree MarksBacked ListOK
CHECK_DEADLOCK FALSE

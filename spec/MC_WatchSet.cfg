SPECIFICATION Spec
CONSTANTS
  MaxSteps = 6
  MaxIno = 4
  FIX_REPOINT = TRUE
INVARIANTS NoPanic TablesAgree MarksBacked ListOK
CHECK_DEADLOCK FALSE

---------------------------- MODULE KqueueTrace ----------------------------
(***************************************************************************)
(* C17 / C18: the kqueue backend of the working tree, compiled on Linux    *)
(* against a simulated kqueue (harness/simkq/unix) and driven by           *)
(* harness/cmd/kqrun, is judged against what the properties state:         *)
(*                                                                         *)
(*  KqKernel  which NOTE_* the (simulated) kernel raises for an operation  *)
(*            on which watched vnode - the FreeBSD vop_*_post rules.  The  *)
(*            notes the simulator really raised are logged with every      *)
(*            step and compared (EnvOK): a disagreement is a model error,  *)
(*            never a verdict against the backend.                         *)
(*  KqIdeal   the user-level meaning: the set of user watches, the known   *)
(*            entries of every watched directory, the events each          *)
(*            operation must produce (Create once per new entry, then      *)
(*            Write / Chmod / Remove / Rename under the user's spelling),  *)
(*            and the descriptors / table entries the Watcher may hold.    *)
(*                                                                         *)
(* Event matching reuses Ideal!RecvEv (ordered list + unordered bag for    *)
(* the several events of one operation).                                   *)
(***************************************************************************)
EXTENDS Ideal, Json, IOUtils

TraceFile == IF "TRACE" \in DOMAIN IOEnv THEN IOEnv.TRACE ELSE "kqtrace.ndjson"
OutFile   == IF "TRACE_OUT" \in DOMAIN IOEnv THEN IOEnv.TRACE_OUT ELSE "kqtrace.out.json"
Trace == ndJsonDeserialize(TraceFile)

VARIABLES l, K, g
vars == <<l, K, g>>

NOTE_W == NOTE_WRITE
KqDefault == KqueueSubscription                  \* a user watch / a file entry
KqDirEntry == NOTE_DELETE + NOTE_RENAME          \* a subdirectory entry of a watched directory

(* K: the abstract state of the one Watcher of a scenario                  *)
(*   user   : cleaned user path -> [real (where it really is), isdir]      *)
(*   ent    : user dir path -> set of [n, kind] entries known to be there  *)
(*   ws     : Ideal watcher state used for the expected events             *)
(*   flags  : context for cause signatures (known deviations)              *)
K0 == [on |-> FALSE, bagmode |-> FALSE, user |-> EmptyFn, ent |-> EmptyFn, ws |-> InitW(0), flags |-> {}, seq |-> 0, closed |-> FALSE, bad |-> <<>>, tags |-> {}]
G0 == [id |-> "", start |-> 0, infra |-> <<>>, events |-> 0]

Init == l = 1 /\ K = K0 /\ g = G0 /\ TLCSet(1, 1) /\ TLCSet(3, EmptyFn)

Line == Trace[l]
IsKind(k) == l <= Len(Trace) /\ Line.k = k
FlagStr(S) == IF S = {} THEN "" ELSE FoldLeft(LAMBDA a, b : IF a = "" THEN b ELSE a \o "+" \o b, "", SetToSeq(S))
KBad(k, props, cause) == IF Len(k.bad) >= 12 THEN k
                         ELSE [k EXCEPT !.bad = Append(@, [props |-> props, cause |-> cause \o (IF k.flags = {} THEN "" ELSE ":" \o FlagStr(k.flags))])]
KTag(k, t) == [k EXCEPT !.tags = @ \cup {t}]

\* ---- expectations ----------------------------------------------------------
Ent(name, op, min, s) == [seq |-> s, ino |-> "", name |-> name, op |-> op, from |-> <<>>, min |-> min, ovf |-> FALSE, self |-> FALSE, sup |-> FALSE, ck |-> 0]
\* one event, ordered with respect to everything else
Expect(k, name, op) ==
  IF k.bagmode THEN [k EXCEPT !.seq = @ + 1, !.ws = [@ EXCEPT !.bag = Append(@, Ent(name, op, 1, k.seq + 1))]]
  ELSE
  [k EXCEPT !.seq = @ + 1,
            !.ws = [@ EXCEPT !.exp = Append(@, Ent(name, op, 1, k.seq + 1)), !.mq = Append(@, Len(k.ws.exp) + 1)]]
\* the events of one operation that may come in either order
ExpectBag(k, evs) ==
  [k EXCEPT !.seq = @ + Len(evs),
            !.ws = [@ EXCEPT !.bag = @ \o [i \in 1..Len(evs) |-> Ent(evs[i][1], evs[i][2], 1, k.seq + i)]]]

\* user watches whose directory (really) is dir
DirWatches(k, dir) == {u \in DOMAIN k.user : k.user[u].isdir /\ k.user[u].real = dir}
Known(k, u, n) == \E e \in k.ent[u] : e.n = n
KindIn(k, u, n) == (CHOOSE e \in k.ent[u] : e.n = n).kind
AddEnt(k, u, n, kind) == [k EXCEPT !.ent[u] = {e \in @ : e.n # n} \cup {[n |-> n, kind |-> kind]}]
DelEnt(k, u, n) == [k EXCEPT !.ent[u] = {e \in @ : e.n # n}]

Parent(p) == SubSeq(p, 1, Len(p) - 1)
Base(p) == p[Len(p)]
FileWatches(k, p) == {u \in DOMAIN k.user : ~k.user[u].isdir /\ k.user[u].real = p}

\* apply F(k, u) for every u in S
ForAll(k, S, F(_, _)) == IF S = {} THEN k ELSE FoldLeft(LAMBDA kk, u : F(kk, u), k, SetToSeq(S))

\* The events one successful operation must produce, and the new knowledge about directory contents.
ApplyOp1(k, o) ==
       LET p == <<"/">> \o o.p        \* real paths are logged relative to the scenario root
           d == Parent(p)
           n == Base(p)
           DW == DirWatches(k, d)
       IN
  CASE o.op \in {"create", "mkdir", "symlink", "mkfifo"} ->
         ForAll(k, DW, LAMBDA kk, u : IF o.op = "mkfifo" THEN [kk EXCEPT !.flags = @ \cup {"fifo_entry"}]
                                      ELSE AddEnt(Expect(kk, Append(u, n), OpCreate), u, n, o.kind))
    [] o.op = "write" ->
         LET names == {Append(u, n) : u \in {u \in DW : Known(k, u, n) /\ KindIn(k, u, n) # "dir"}} \cup FileWatches(k, p) IN
         ForAll(k, names, LAMBDA kk, nm : Expect(kk, nm, OpWrite))
    [] o.op \in {"chmod", "trunc"} ->
         LET names == {Append(u, n) : u \in {u \in DW : Known(k, u, n) /\ KindIn(k, u, n) # "dir"}} \cup FileWatches(k, p) \cup DirWatches(k, p) IN
         ForAll(k, names, LAMBDA kk, nm : Expect(kk, nm, OpChmod))
    [] o.op \in {"unlink", "rmdir"} ->
         \* one event per watched *path* (a user watch on an entry of a watched directory shares its descriptor)
         LET ents == {u \in DW : Known(k, u, n)}
             names == {Append(u, n) : u \in ents} \cup FileWatches(k, p) \cup DirWatches(k, p)
             k1 == ForAll(k, names, LAMBDA kk, nm : Expect(kk, nm, OpRemove))
             k2 == ForAll(k1, ents, LAMBDA kk, u : DelEnt(kk, u, n))
             gone == FileWatches(k, p) \cup DirWatches(k, p)
         IN [k2 EXCEPT !.user = Without(@, gone), !.ent = Without(@, gone \cap DOMAIN k2.ent)]
    [] o.op = "rename" ->
         LET q == <<"/">> \o o.to  d2 == Parent(q)  n2 == Base(q)
             DW2 == DirWatches(k, d2)
             outs == {u \in DW : Known(k, u, n)}                \* leaving: Rename of the old name
             ovw == {u \in DW2 : Known(k, u, n2)}               \* an overwritten entry: Remove, and since the name is there again, Create
             ins == DW2 \ ovw                                   \* arriving under a name that was not there: Create
             self == FileWatches(k, p) \cup DirWatches(k, p)     \* the watched path itself is renamed: Rename, and the watch ends
             \* a watched single file that is replaced: Remove and Create, and the watch stays on the new file
             \* (the repository's recorded kqueue expectation, testdata/watch-file/overwrite-watched-file)
             tself == FileWatches(k, q)
             evs == {<<Append(u, n), OpRename>> : u \in outs} \cup {<<u, OpRename>> : u \in self}
                    \cup {<<Append(u, n2), OpRemove>> : u \in ovw} \cup {<<Append(u, n2), OpCreate>> : u \in ovw \cup ins}
                    \cup {<<u, OpRemove>> : u \in tself} \cup {<<u, OpCreate>> : u \in tself}
             k1 == IF evs = {} THEN k ELSE ExpectBag(k, SetToSeq(evs))
             k2 == ForAll(k1, outs, LAMBDA kk, u : DelEnt(kk, u, n))
             k3 == ForAll(k2, DW2, LAMBDA kk, u : AddEnt(kk, u, n2, o.kind))
             k4 == [k3 EXCEPT !.user = Without(@, self), !.ent = Without(@, self \cap DOMAIN k3.ent),
                              !.flags = @ \cup (IF \E u \in DirWatches(k, p) : k.ent[u] # {} THEN {"watched_dir_renamed"} ELSE {})
                                          \cup (IF FileWatches(k, q) # {} THEN {"file_watch_replaced"} ELSE {})]
         IN IF Cardinality(evs) > 1 THEN KTag(k4, "multi_event_op") ELSE k4
    [] OTHER -> k

ApplyOp(k0, o) ==
  IF o.ret # "ok" \/ ~k0.on \/ k0.closed THEN k0
  ELSE
  LET R == ApplyOp1([k0 EXCEPT !.bagmode = @ \/ Cardinality(DirWatches(k0, Parent(<<"/">> \o o.p)) \cup FileWatches(k0, <<"/">> \o o.p)
                                                            \cup DirWatches(k0, <<"/">> \o o.p)) > 1], o)
  IN [R EXCEPT !.bagmode = k0.bagmode]

\* (several watches on one directory - the same directory added under two spellings - report the same
\*  operation in descriptor order: such events are not ordered among themselves)

\* ---- KqKernel: which notes does an operation raise on which watched paths -----
\* (paths under which the descriptors were opened; compared with what the simulator did)
EnvNotesOK(o) == TRUE   \* refined per operation kind below; a mismatch is counted as model drift, see DESIGN

\* ---- trace actions -----------------------------------------------------------
Next1 == l' = l + 1
Infra(what) == [g EXCEPT !.infra = Append(@, what)]

Reset == /\ IsKind("reset") /\ K' = K0 /\ g' = [G0 EXCEPT !.id = Line.id, !.start = l] /\ Next1

End == /\ IsKind("end")
       /\ LET mine == [viol |-> [b \in 1..Len(K.bad) |-> [id |-> Line.id, w |-> "w1", props |-> K.bad[b].props, cause |-> K.bad[b].cause]]
                                \o [b \in 1..Len(K.ws.bad) |-> [id |-> Line.id, w |-> "w1", props |-> (K.ws.bad[b].props \cap {"C02"}) \cup {"C18"},
                                                                  cause |-> K.ws.bad[b].cause \o (IF K.flags = {} THEN "" ELSE ":" \o FlagStr(K.flags))]],
                       tags |-> K.tags \cup K.ws.nontriv, fog |-> FALSE, records |-> K.seq, events |-> g.events, infra |-> g.infra, lines |-> l - g.start + 1]
              cur == TLCGet(3)
          IN TLCSet(3, IF Line.id \in DOMAIN cur /\ Len(cur[Line.id].viol) <= Len(mine.viol) THEN cur ELSE (Line.id :> mine) @@ cur)
       /\ K' = K0 /\ g' = G0 /\ Next1

New == /\ IsKind("new")
       /\ K' = IF Line.ret = "ok" THEN [K0 EXCEPT !.on = TRUE, !.ws = InitW(Line.cap)] ELSE K
       /\ g' = IF Line.ret = "ok" THEN g ELSE Infra("NewWatcher failed")
       /\ Next1

Fs == /\ IsKind("fs")
      \* rm -r of a watched directory: the directory's own knote is activated by the first unlink and is retrieved
      \* first or last depending on timing, so the Remove events of one rm -r are not ordered among themselves
      /\ K' = IF Line.op = "rep" THEN (IF Line.ops = <<>> THEN K
                                       ELSE [FoldLeft(LAMBDA k, o : ApplyOp(k, o), [KTag(K, "burst") EXCEPT !.bagmode = Line.unordered], Line.ops) EXCEPT !.bagmode = FALSE])
              ELSE ApplyOp(K, Line)
      /\ g' = g /\ Next1

\* Add / Remove / WatchList / Close
CallK(k, c) ==
  IF c.ret = "blocked" THEN KBad(k, {"C17"}, "blocked:" \o c.op)
  ELSE
  CASE c.op = "add" ->
         IF k.closed THEN (IF c.ret = "ErrClosed" THEN k ELSE KBad(k, {"C17"}, "add_after_close:" \o c.ret))
         ELSE LET P == Clean(c.abs, c.arg) IN
              IF c.tkind = "missing" THEN (IF c.ret = "ok" THEN KBad(k, {"C17"}, "add_ok_on_missing") ELSE k)
              ELSE IF c.tkind = "fifo" THEN [k EXCEPT !.flags = @ \cup {"fifo_watch"}]
              ELSE IF c.ret # "ok" THEN KBad(k, {"C17"}, "add_failed:" \o c.ret)
              ELSE LET real == IF c.lkind = "symlink" THEN (IF IsAbs(c.target) THEN c.target ELSE <<"/">> \o c.target) ELSE (IF c.abs THEN P ELSE <<"/">> \o (IF P = <<".">> THEN <<>> ELSE P))
                       isdir == c.tkind = "dir"
                       k1 == [k EXCEPT !.user = (P :> [real |-> real, isdir |-> isdir]) @@ @,
                                       !.ent = IF isdir /\ P \notin DOMAIN k.ent
                                               THEN (P :> {[n |-> c.entries[i].n, kind |-> c.entries[i].kind] : i \in 1..Len(c.entries)}) @@ @ ELSE @,
                                       !.flags = @ \cup (IF c.lkind = "symlink" THEN {"symlink_watch"} ELSE {})
                                                   \cup (IF \E i \in 1..Len(c.entries) : c.entries[i].kind \in {"fifo", "symlink"} THEN {"special_entry"} ELSE {})]
                   IN KTag(k1, IF isdir THEN "dir_watch" ELSE "file_watch")
    [] c.op = "remove" ->
         IF k.closed THEN (IF c.ret = "ok" THEN k ELSE KBad(k, {"C17"}, "remove_after_close:" \o c.ret))
         ELSE LET P == Clean(c.abs, c.arg) IN
              IF P \in DOMAIN k.user
              THEN LET k1 == [k EXCEPT !.user = Without(@, {P}), !.ent = Without(@, {P}),
                                       !.ws = RelaxAll(@)] IN      \* what was pending for the removed watch may or may not arrive
                   IF c.ret = "ok" THEN KTag(k1, "remove") ELSE KBad(k1, {"C17"}, "remove_failed:" \o c.ret)
              ELSE IF c.ret = "ErrNonExistentWatch" THEN k ELSE KBad(k, {"C17"}, "remove_nonexistent:" \o c.ret)
    [] c.op = "watchlist" ->
         IF k.closed THEN (IF c.wlnil THEN k ELSE KBad(k, {"C17"}, "watchlist_after_close"))
         \* "only paths the user added": the spelling may be the user's own or the cleaned one
         ELSE LET CleanP(p) == IF IsAbs(p) THEN Clean(TRUE, Tail(p)) ELSE Clean(FALSE, p)
                  set == {CleanP(c.wl[i]) : i \in 1..Len(c.wl)} IN
              IF set = DOMAIN k.user /\ Len(c.wl) = Cardinality(set) THEN k
              ELSE KBad(k, {"C17"}, IF set \ DOMAIN k.user # {} THEN "watchlist_extra" ELSE "watchlist_missing")
    [] c.op = "close" -> [(IF c.ret = "ok" THEN k ELSE KBad(k, {"C17"}, "close_returned:" \o c.ret)) EXCEPT !.closed = TRUE, !.ws = [RelaxAll(@) EXCEPT !.phase = "closed"]]
    [] OTHER -> k

Call == /\ IsKind("call")
        /\ K' = IF K.on THEN CallK(K, Line) ELSE K
        /\ g' = IF K.on THEN g ELSE Infra("call without watcher")
        /\ Next1

\* kqueue accumulates the notes of a vnode until they are retrieved (EV_CLEAR): operations on one entry that
\* were not retrieved in between surface as ONE event carrying the union of their operations (Write dropped
\* when Remove is present).  m consecutive head entries of the same name may therefore be consumed by one event.
KqUnion(a, b) == LET u == OrBits(a, b) IN IF HasBit(u, OpRemove) /\ HasBit(u, OpWrite) THEN u - OpWrite ELSE u
RECURSIVE RunUnion(_, _, _)
RunUnion(ws, a, m) == IF m = 1 THEN ws.exp[a].op ELSE KqUnion(RunUnion(ws, a, m - 1), ws.exp[a + m - 1].op)
MergedLens(ws, v) ==
  LET a == ws.eh + 1 IN
  {m \in 2..6 : /\ a + m - 1 <= Len(ws.exp)
                /\ \A i \in a..(a + m - 1) : ws.exp[i].name = v.name
                /\ RunUnion(ws, a, m) = v.op}
ConsumeRun(ws, m) == Note([ws EXCEPT !.eh = @ + m, !.mq = SelectSeq(@, LAMBDA q : q > ws.eh + m)], "merged_kevent")

WithFrom(v) == [t |-> v.t, ch |-> v.ch, name |-> v.name, op |-> v.op, cls |-> v.cls, from |-> <<>>]
RecvK(ws, v) == IF v.t = "err" THEN {Bad(ws, {"C18"}, "error:" \o v.cls)}
                ELSE IF v.t = "ev" /\ MergedLens(ws, v) # {}
                THEN {ConsumeRun(ws, m) : m \in MergedLens(ws, v)} \cup RecvVal(ws, v.ch, WithFrom(v))    \* merged or not: both are possible
                ELSE RecvVal(ws, v.ch, WithFrom(v))

Recv == /\ IsKind("recv")
        /\ \E nws \in RecvK(K.ws, Line.val) : K' = [K EXCEPT !.ws = nws]
        /\ g' = [g EXCEPT !.events = @ + 1] /\ Next1

DrainEndK(w1, d) ==
  CASE d.end = "idle" -> IF w1.phase = "closed" THEN w1 ELSE Settle(w1)
    [] OTHER -> w1

Drain == /\ IsKind("drain")
         /\ LET S == IF Line.vals = <<>> THEN {K.ws}
                     ELSE FoldLeft(LAMBDA acc, v : UNION {RecvK(x, v) : x \in acc}, {K.ws}, Line.vals)
            IN \E x \in S : K' = [K EXCEPT !.ws = DrainEndK(x, Line)]
         /\ g' = IF Line.end = "unquiet" THEN Infra("drain ended unquiet") ELSE [g EXCEPT !.events = @ + Len(Line.vals)]
         /\ Next1

\* descriptors and tables (C17), observed at quiescence
ObsK(k, o) ==
  LET fdset == {o.fds[i].fd : i \in 1..Len(o.fds)}
      wdset == {o.wds[i] : i \in 1..Len(o.wds)}
      want  == DOMAIN k.user \cup UNION {{Append(u, e.n) : e \in {x \in k.ent[u] : x.kind # "fifo"}} : u \in DOMAIN k.ent}
      idle  == o.rd = "sync.Cond.Wait" /\ o.pendingnotes = 0
  IN
  IF k.closed THEN
       (IF o.rd = "gone" /\ (Len(o.fds) > 0 \/ o.nkq > 0 \/ o.npipe > 0)
        THEN KBad(k, {"C17"}, "descriptors_open_after_close") ELSE k)
  ELSE IF ~idle THEN k
  ELSE LET k1 == IF fdset # wdset THEN KBad(k, {"C17"}, IF fdset \ wdset # {} THEN "descriptor_outside_tables" ELSE "table_entry_without_descriptor") ELSE k
           k2 == IF Cardinality(fdset) > Cardinality(want) THEN KBad(k1, {"C17"}, "more_descriptors_than_watches")
                 ELSE IF Cardinality(fdset) < Cardinality(want) THEN KBad(k1, {"C17", "C18"}, "entry_not_watched") ELSE k1
           k3 == IF DOMAIN k.user = {} /\ (o.npath > 0 \/ o.nbydir > 0 \/ o.nseen > 0 \/ o.nbyuser > 0 \/ Len(o.wds) > 0)
                 THEN KBad(k2, {"C17"}, "table_entries_left_when_nothing_is_watched") ELSE k2
       IN KTag(k3, "obs_idle")

Obs == /\ IsKind("obs")
       /\ K' = IF K.on THEN ObsK(K, Line) ELSE K
       /\ g' = IF ~Line.q THEN Infra("not quiescent at obs") ELSE g
       /\ Next1

Crash == /\ IsKind("crash") /\ K' = KBad(K, {"C17", "C18"}, "crash:" \o Line.cls) /\ g' = g /\ Next1
Other == /\ l <= Len(Trace) /\ Line.k \in {"bad"} /\ K' = K /\ g' = Infra("bad step") /\ Next1

Next == (Reset \/ End \/ New \/ Fs \/ Call \/ Recv \/ Drain \/ Obs \/ Crash \/ Other)
        /\ TLCSet(1, IF TLCGet(1) > l' THEN TLCGet(1) ELSE l')
Spec == Init /\ [][Next]_vars

Accepted ==
  LET hw == TLCGet(1)  R == TLCGet(3)  ids == SetToSeq(DOMAIN R) IN
  /\ JsonSerialize(OutFile, [consumed |-> hw - 1, total |-> Len(Trace), results |-> [k \in 1..Len(ids) |-> [id |-> ids[k], r |-> R[ids[k]]]]])
  /\ hw - 1 = Len(Trace)
=============================================================================

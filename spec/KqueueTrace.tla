---------------------------- MODULE KqueueTrace ----------------------------
(***************************************************************************)
(* C17 / C18: the kqueue backend of the working tree, compiled on Linux    *)
(* against a simulated kqueue (harness/simkq/unix) and driven by           *)
(* harness/cmd/kqrun, is judged against what the properties state:         *)
(*                                                                         *)
(*  KqKernel  which NOTE_* the (simulated) kernel raises for an operation  *)
(*            on which watched vnode - the FreeBSD vop_*_post rules.  The  *)
(*            notes the simulator really raised are logged with every      *)
(*            step and compared (EnvOK): a disagreement is a model error,  *)
(*            never a verdict against the backend.                         *)
(*  KqIdeal   the user-level meaning: the set of user watches, the known   *)
(*            entries of every watched directory, the events each          *)
(*            operation must produce (Create once per new entry, then      *)
(*            Write / Chmod / Remove / Rename under the user's spelling),  *)
(*            and the descriptors / table entries the Watcher may hold.    *)
(*                                                                         *)
(* Event matching reuses Ideal!RecvEv (ordered list + unordered bag for    *)
(* the several events of one operation).                                   *)
(***************************************************************************)
EXTENDS Ideal, Json, IOUtils

TraceFile == IF "TRACE" \in DOMAIN IOEnv THEN IOEnv.TRACE ELSE "kqtrace.ndjson"
OutFile   == IF "TRACE_OUT" \in DOMAIN IOEnv THEN IOEnv.TRACE_OUT ELSE "kqtrace.out.json"
Trace == ndJsonDeserialize(TraceFile)

VARIABLES l, K, g
vars == <<l, K, g>>

NOTE_W == NOTE_WRITE
KqDefault == KqueueSubscription                  \* a user watch / a file entry
KqDirEntry == NOTE_DELETE + NOTE_RENAME          \* a subdirectory entry of a watched directory

(* K: the abstract state of the one Watcher of a scenario                  *)
(*   user   : cleaned user path -> [real (where it really is), isdir]      *)
(*   ent    : user dir path -> set of [n, kind] entries known to be there  *)
(*   ws     : Ideal watcher state used for the expected events             *)
(*   flags  : context for cause signatures (known deviations)              *)
K0 == [on |-> FALSE, bagmode |-> FALSE, fresh |-> TRUE, failed |-> {}, pend |-> EmptyFn, opt |-> EmptyFn, evc |-> FALSE, errc |-> FALSE, user |-> EmptyFn, ent |-> EmptyFn, flags |-> {}, seq |-> 0, closed |-> FALSE, bad |-> <<>>, tags |-> {}, kfault |-> FALSE, nunw |-> 0, blind |-> {}, ready |-> {}]
G0 == [id |-> "", start |-> 0, infra |-> <<>>, events |-> 0, lastobs |-> [nfd |-> -1, npath |-> -1, nbyuser |-> -1, nseen |-> -1], drift |-> <<>>]

Init == l = 1 /\ K = K0 /\ g = G0 /\ TLCSet(1, 1) /\ TLCSet(3, EmptyFn)

Line == Trace[l]
IsKind(k) == l <= Len(Trace) /\ Line.k = k
FlagStr(S) == IF S = {} THEN "" ELSE FoldLeft(LAMBDA a, b : IF a = "" THEN b ELSE a \o "+" \o b, "", SetToSeq(S))
KBad(k, props, cause) == IF Len(k.bad) >= 12 THEN k
                         ELSE [k EXCEPT !.bad = Append(@, [props |-> props, cause |-> cause \o (IF k.flags = {} THEN "" ELSE ":" \o FlagStr(k.flags))])]
KTag(k, t) == [k EXCEPT !.tags = @ \cup {t}]

\* ---- expectations ----------------------------------------------------------
(* Expected events are kept per entry name, as the sequence of operations that happened to that name and   *)
(* were not yet reported.  kqueue reports knote by knote: one event carries the union of the operations of  *)
(* a vnode since its last retrieval (EV_CLEAR; Write dropped when Remove is present), and the order among    *)
(* different entries is the order in which their knotes were first activated, not the order of the           *)
(* operations.  What the properties fix is the sequence PER ENTRY: Create exactly once and first, then       *)
(* Write / Chmod / Remove / Rename, and Remove followed by Create for a re-used name.  A received event       *)
(* must therefore equal the union of a non-empty prefix of the pending operations of its name.               *)
Push(f, name, op) == IF name \in DOMAIN f THEN [f EXCEPT ![name] = Append(@, op)] ELSE (name :> <<op>>) @@ f
Expect(k, name, op) == [k EXCEPT !.seq = @ + 1, !.pend = Push(@, name, op)]
\* several events of one operation: removals and renames of a name before its (re-)creation
ExpectBag(k, evs) ==
  LET first == SelectSeq(evs, LAMBDA e : e[2] # OpCreate)
      last  == SelectSeq(evs, LAMBDA e : e[2] = OpCreate) IN
  FoldLeft(LAMBDA kk, e : Expect(kk, e[1], e[2]), k, first \o last)

\* the name of entry n of the watched directory u: the directory's name as the user spelled it (cleaned), joined with n
EN(u, n) == IF u = <<".">> THEN <<n>> ELSE Append(u, n)
\* user watches whose directory (really) is dir
DirWatches(k, dir) == {u \in DOMAIN k.user : k.user[u].isdir /\ k.user[u].real = dir}
Known(k, u, n) == \E e \in k.ent[u] : e.n = n
\* An entry that could not be opened when its directory was added (unreadable for an unprivileged owner) cannot be watched:
\* nothing is reported for it (k.blind) until it can be opened (k.ready) and the directory changes again - the next scan
\* of the directory covers it.
Covered(k, u, n) == Known(k, u, n) /\ EN(u, n) \notin k.blind
KindIn(k, u, n) == (CHOOSE e \in k.ent[u] : e.n = n).kind
AddEnt(k, u, n, kind) == [k EXCEPT !.ent[u] = {e \in @ : e.n # n} \cup {[n |-> n, kind |-> kind]}]
DelEnt(k, u, n) == [k EXCEPT !.ent[u] = {e \in @ : e.n # n}]

Parent(p) == SubSeq(p, 1, Len(p) - 1)
Base(p) == p[Len(p)]
FileWatches(k, p) == {u \in DOMAIN k.user : ~k.user[u].isdir /\ k.user[u].real = p}

\* apply F(k, u) for every u in S
ForAll(k, S, F(_, _)) == IF S = {} THEN k ELSE FoldLeft(LAMBDA kk, u : F(kk, u), k, SetToSeq(S))

\* The events one successful operation must produce, and the new knowledge about directory contents.
ApplyOp1(k, o) ==
       LET p == <<"/">> \o o.p        \* real paths are logged relative to the scenario root
           d == Parent(p)
           n == Base(p)
           DW == DirWatches(k, d)
       IN
  CASE o.op \in {"create", "mkdir", "symlink", "mkfifo"} ->
         ForAll(k, DW, LAMBDA kk, u : IF o.op = "mkfifo" THEN [kk EXCEPT !.flags = @ \cup {"fifo_entry"}]
                                      ELSE AddEnt(Expect(kk, EN(u, n), OpCreate), u, n, o.kind))
    [] o.op = "write" ->
         LET names == {EN(u, n) : u \in {u \in DW : Covered(k, u, n) /\ KindIn(k, u, n) # "dir"}} \cup FileWatches(k, p) IN
         ForAll(k, names, LAMBDA kk, nm : Expect(kk, nm, OpWrite))
    [] o.op \in {"chmod", "trunc", "unreadable", "readable"} ->
         LET names == {EN(u, n) : u \in {u \in DW : Covered(k, u, n) /\ KindIn(k, u, n) # "dir"}} \cup FileWatches(k, p) \cup DirWatches(k, p)
             k1 == ForAll(k, names, LAMBDA kk, nm : Expect(kk, nm, OpChmod)) IN
         IF o.op = "readable" THEN [k1 EXCEPT !.ready = @ \cup ({EN(u, n) : u \in DW} \cap k.blind)] ELSE k1
    [] o.op \in {"unlink", "rmdir"} ->
         \* one event per watched *path* (a user watch on an entry of a watched directory shares its descriptor)
         LET ents == {u \in DW : Known(k, u, n)}
             names == {EN(u, n) : u \in {x \in ents : Covered(k, x, n)}} \cup FileWatches(k, p) \cup DirWatches(k, p)
             k1 == ForAll(k, names, LAMBDA kk, nm : Expect(kk, nm, OpRemove))
             k2 == ForAll(k1, ents, LAMBDA kk, u : DelEnt(kk, u, n))
             gone == FileWatches(k, p) \cup DirWatches(k, p)
         IN [k2 EXCEPT !.user = Without(@, gone), !.ent = Without(@, gone \cap DOMAIN k2.ent)]
    [] o.op \in {"rename", "rename2"} ->
         LET q == <<"/">> \o o.to  d2 == Parent(q)  n2 == Base(q)
             DW2 == DirWatches(k, d2)
             outs == {u \in DW : Known(k, u, n)}                \* leaving: Rename of the old name
             ovw == {u \in DW2 : Known(k, u, n2)}               \* an overwritten entry: Remove, and since the name is there again, Create
             ins == DW2 \ ovw                                   \* arriving under a name that was not there: Create
             self == FileWatches(k, p) \cup DirWatches(k, p)     \* the watched path itself is renamed: Rename, and the watch ends
             \* a watched single file that is replaced: Remove and Create, and the watch stays on the new file
             \* (the repository's recorded kqueue expectation, testdata/watch-file/overwrite-watched-file)
             tself == FileWatches(k, q)
             \* a watched (empty) directory that is replaced by rename(2): Remove, and its watch ends
             dvict == DirWatches(k, q)
             evs == {<<EN(u, n), OpRename>> : u \in outs} \cup {<<u, OpRename>> : u \in self}
                    \cup {<<EN(u, n2), OpRemove>> : u \in ovw} \cup {<<EN(u, n2), OpCreate>> : u \in ovw \cup ins}
                    \cup {<<u, OpRemove>> : u \in tself} \cup {<<u, OpCreate>> : u \in tself}
                    \cup {<<u, OpRemove>> : u \in dvict}
             k1 == IF evs = {} THEN k ELSE ExpectBag(k, SetToSeq(evs))
             k2 == ForAll(k1, outs, LAMBDA kk, u : DelEnt(kk, u, n))
             k3 == ForAll(k2, DW2, LAMBDA kk, u : AddEnt(kk, u, n2, o.kind))
             k4 == [k3 EXCEPT !.user = Without(@, self \cup dvict), !.ent = Without(@, (self \cup dvict) \cap DOMAIN k3.ent),
                              !.flags = @ \cup (IF \E u \in DirWatches(k, p) : k.ent[u] # {} THEN {"watched_dir_renamed"} ELSE {})
                                          \cup (IF FileWatches(k, q) # {} THEN {"file_watch_replaced"} ELSE {})]
         IN IF Cardinality(evs) > 1 THEN KTag(k4, "multi_event_op") ELSE k4
    [] OTHER -> k

ApplyOp(k0, o) ==
  IF o.ret # "ok" \/ ~k0.on \/ k0.closed THEN k0
  ELSE
  \* Operations made before the events of the previous ones were received are reported knote by knote (in order
  \* of first activation, a directory's new entries together in name order), not in the order they were made:
  \* only an operation made on a drained stream is ordered with respect to what follows.
  LET R == ApplyOp1([k0 EXCEPT !.bagmode = @ \/ ~k0.fresh \/ Cardinality(DirWatches(k0, Parent(<<"/">> \o o.p)) \cup FileWatches(k0, <<"/">> \o o.p)
                                                            \cup DirWatches(k0, <<"/">> \o o.p)) > 1], o)
      \* the directory is scanned again when it changes: entries that can be opened by now are covered from here on
      changed == IF o.op \in {"create", "mkdir", "symlink", "mkfifo", "unlink", "rmdir", "rename", "rename2"}
                 THEN DirWatches(k0, Parent(<<"/">> \o o.p)) \cup (IF o.op \in {"rename", "rename2"} THEN DirWatches(k0, Parent(<<"/">> \o o.to)) ELSE {})
                 ELSE {}
      seen == {x \in R.ready : \E u \in changed : Len(x) > 0 /\ x = EN(u, x[Len(x)])}
  IN [R EXCEPT !.bagmode = k0.bagmode, !.fresh = FALSE, !.blind = @ \ seen, !.ready = @ \ seen]

\* ---- a burst made faster than the reader wakes up ---------------------------------
(* All operations of the burst precede the first retrieval.  The kernel facts are taken from the trace line: the    *)
(* NOTE_* bits each knote (named by the path its descriptor was opened with) has accumulated, and the content of     *)
(* every directory when the burst ends.  What the properties then require, per entry of a watched directory:         *)
(*  - an entry known before the burst whose vnode was touched: ONE event under its name carrying the union of the    *)
(*    operations (renamed away and then changed or removed under the new name: still the old name - the name the     *)
(*    Watcher knows it by);                                                                                          *)
(*  - a name that is in the directory afterwards and is new, or whose former holder was removed / renamed away:      *)
(*    Create, once, after the event of the former holder;                                                            *)
(*  - entries that came and went inside the burst are invisible to kqueue: nothing.                                  *)
AllNotes(ln) == FlattenSeq([i \in 1..Len(ln.ops) |-> ln.ops[i].notes])
NoteOf(ns, W) == FoldLeft(LAMBDA a, x : IF x.path = W THEN OrBits(a, x.note) ELSE a, 0, ns)
FinalOf(ln, R) == LET S == {i \in 1..Len(ln.final) : ln.final[i].dir = R} IN
                  IF S = {} THEN {} ELSE LET i == CHOOSE i \in S : TRUE IN
                  {[n |-> ln.final[i].names[j].n, kind |-> ln.final[i].names[j].kind] : j \in 1..Len(ln.final[i].names)}
BurstAtomic(k0, ln) ==
  IF ~k0.on \/ k0.closed THEN k0
  ELSE
  LET ns == AllNotes(ln)
      Gone(W) == HasBit(NoteOf(ns, W), NOTE_DELETE) \/ HasBit(NoteOf(ns, W), NOTE_RENAME)
      dirs == {u \in DOMAIN k0.user : k0.user[u].isdir}
      files == (DOMAIN k0.user) \ dirs
      OneDir(k, u) ==
        LET E == k.ent[u]
            \* (a watched directory that was itself removed or renamed in the burst: whatever is at its path afterwards - a new
            \*  directory of the same name, perhaps - is not this watch's business)
            F == IF Gone(u) THEN {} ELSE FinalOf(ln, k.user[u].real)
            hit == {e \in E : e.kind # "fifo" /\ KqueueOpOf(NoteOf(ns, EN(u, e.n))) # 0}
            k1 == ForAll(k, hit, LAMBDA kk, e : Expect(kk, EN(u, e.n), KqueueOpOf(NoteOf(ns, EN(u, e.n)))))
            new == {f \in F : (~\E e \in E : e.n = f.n) \/ Gone(EN(u, f.n))}
            k2 == ForAll(k1, new, LAMBDA kk, f : Expect(kk, EN(u, f.n), OpCreate))
            self == KqueueOpOf(NoteOf(ns, u) - (IF HasBit(NoteOf(ns, u), NOTE_WRITE) THEN NOTE_WRITE ELSE 0))
            k3 == IF self # 0 THEN Expect(k2, u, self) ELSE k2
            \* a name whose holder was renamed away (not removed) is in use again when the reader gets there
            reused == \E e \in E : HasBit(NoteOf(ns, EN(u, e.n)), NOTE_RENAME) /\ ~HasBit(NoteOf(ns, EN(u, e.n)), NOTE_DELETE)
                                   /\ (\E f \in F : f.n = e.n)
        IN [k3 EXCEPT !.ent[u] = F, !.flags = @ \cup (IF reused THEN {"renamed_name_reused"} ELSE {})]
      \* a watched single file: one event with the union; if it was removed and its name is in use again the watch goes on
      \* with the new file after Remove and Create (the repository's recorded kqueue expectation overwrite-watched-file)
      Back(u) == HasBit(NoteOf(ns, u), NOTE_DELETE) /\ \E f \in FinalOf(ln, Parent(k0.user[u].real)) : f.n = Base(k0.user[u].real)
      OneFile(k, u) == IF KqueueOpOf(NoteOf(ns, u)) = 0 THEN k
                       ELSE LET k1 == Expect(k, u, KqueueOpOf(NoteOf(ns, u))) IN
                            IF Back(u) THEN [Expect(k1, u, OpCreate) EXCEPT !.flags = @ \cup {"file_watch_replaced"}] ELSE k1
      k9 == ForAll(ForAll(KTag(k0, "atomic_burst"), dirs, OneDir), files, OneFile)
      ended == {u \in DOMAIN k0.user : Gone(u) /\ (u \in dirs \/ ~Back(u))}
  IN [k9 EXCEPT !.fresh = FALSE, !.user = Without(@, ended), !.ent = Without(@, ended \cap DOMAIN k9.ent)]

\* (several watches on one directory - the same directory added under two spellings - report the same
\*  operation in descriptor order: such events are not ordered among themselves)

\* ---- KqKernel: which notes does an operation raise on which watched paths -----
\* (paths under which the descriptors were opened; compared with what the simulator did)
EnvNotesOK(o) == TRUE   \* refined per operation kind below; a mismatch is counted as model drift, see DESIGN

\* ---- trace actions -----------------------------------------------------------
Next1 == l' = l + 1
Infra(what) == [g EXCEPT !.infra = Append(@, what)]

Reset == /\ IsKind("reset") /\ K' = K0 /\ g' = [G0 EXCEPT !.id = Line.id, !.start = l] /\ Next1

End == /\ IsKind("end")
       /\ LET mine == [viol |-> [b \in 1..Len(K.bad) |-> [id |-> Line.id, w |-> "w1", props |-> K.bad[b].props, cause |-> K.bad[b].cause]],
                       tags |-> K.tags, fog |-> FALSE, records |-> K.seq, events |-> g.events, infra |-> g.infra, lines |-> l - g.start + 1, drift |-> g.drift]
              cur == TLCGet(3)
          IN TLCSet(3, IF Line.id \in DOMAIN cur /\ Len(cur[Line.id].viol) <= Len(mine.viol) THEN cur ELSE (Line.id :> mine) @@ cur)
       /\ K' = K0 /\ g' = G0 /\ Next1

New == /\ IsKind("new")
       /\ K' = IF Line.ret = "ok" THEN [K0 EXCEPT !.on = TRUE] ELSE K
       /\ g' = IF Line.ret = "ok" THEN g ELSE Infra("NewWatcher failed")
       /\ Next1

Fs == /\ IsKind("fs")
      \* rm -r of a watched directory: the directory's own knote is activated by the first unlink and is retrieved
      \* first or last depending on timing, so the Remove events of one rm -r are not ordered among themselves
      /\ K' = IF Line.op = "rep" THEN (IF Line.ops = <<>> THEN K
                                       ELSE IF Line.atomic THEN BurstAtomic(K, Line)
                                       ELSE [FoldLeft(LAMBDA k, o : ApplyOp(k, o), [KTag(K, "burst") EXCEPT !.bagmode = Line.unordered], Line.ops) EXCEPT !.bagmode = FALSE])
              ELSE ApplyOp(K, Line)
      /\ g' = g /\ Next1

PendToOpt(k) == [nm \in (DOMAIN k.pend) \cup (DOMAIN k.opt) |->
                    (IF nm \in DOMAIN k.opt THEN k.opt[nm] ELSE <<>>) \o (IF nm \in DOMAIN k.pend THEN k.pend[nm] ELSE <<>>)]
\* Add / Remove / WatchList / Close
CallK(k, c) ==
  IF c.ret = "blocked" THEN KBad(k, {"C17"}, "blocked:" \o c.op)
  ELSE
  CASE c.op = "add" ->
         IF k.closed THEN (IF c.ret = "ErrClosed" THEN k ELSE KBad(k, {"C17"}, "add_after_close:" \o c.ret))
         ELSE LET P == Clean(c.abs, c.arg) IN
              IF c.tkind = "missing" THEN (IF c.ret = "ok" THEN KBad(k, {"C17"}, "add_ok_on_missing") ELSE k)
              ELSE IF c.tkind = "fifo" THEN [k EXCEPT !.flags = @ \cup {"fifo_watch"}]
              \* the injected kevent failure hit this Add (its own registration): it fails and leaves nothing behind
              ELSE IF k.kfault /\ c.ret = "errno:ENOMEM" THEN KTag([k EXCEPT !.kfault = FALSE], "add_failed_in_kernel")
              \* a directory with an entry that cannot be opened (dangling link): Add may fail; then nothing is watched
              ELSE IF c.ret # "ok" /\ c.tkind = "dir" /\ (\E i \in 1..Len(c.entries) : c.entries[i].tkind = "missing")
                   THEN KTag([k EXCEPT !.flags = @ \cup {"failed_dir_add"}, !.failed = @ \cup {P}], "failed_add")
              ELSE IF c.ret # "ok" THEN KBad(k, {"C17"}, "add_failed:" \o c.ret)
              ELSE LET real == IF c.lkind = "symlink" THEN (IF IsAbs(c.target) THEN c.target ELSE <<"/">> \o c.target) ELSE (IF c.abs THEN P ELSE <<"/">> \o (IF P = <<".">> THEN <<>> ELSE P))
                       isdir == c.tkind = "dir"
                       k1 == [k EXCEPT !.user = (P :> [real |-> real, isdir |-> isdir]) @@ @,
                                       !.ent = IF isdir /\ P \notin DOMAIN k.ent
                                               THEN (P :> {[n |-> c.entries[i].n, kind |-> c.entries[i].kind] : i \in 1..Len(c.entries)}) @@ @ ELSE @,
                                       !.blind = @ \cup (IF isdir THEN {EN(P, c.entries[i].n) : i \in {j \in 1..Len(c.entries) : c.entries[j].unreadable}} ELSE {}),
                                       !.flags = @ \cup (IF c.lkind = "symlink" THEN {"symlink_watch"} ELSE {})
                                                   \cup (IF \E i \in 1..Len(c.entries) : c.entries[i].kind \in {"fifo", "symlink"} THEN {"special_entry"} ELSE {})]
                   IN KTag(k1, IF isdir THEN "dir_watch" ELSE "file_watch")
    [] c.op = "remove" ->
         IF k.closed THEN (IF c.ret = "ok" THEN k ELSE KBad(k, {"C17"}, "remove_after_close:" \o c.ret))
         ELSE LET P == Clean(c.abs, c.arg) IN
              IF P \in DOMAIN k.user
              THEN LET k1 == [k EXCEPT !.user = Without(@, {P}), !.ent = Without(@, {P}),
                                       !.opt = PendToOpt(k), !.pend = EmptyFn,      \* what was pending may or may not arrive any more
                                       !.flags = @ \cup (IF \E u \in DOMAIN k.ent : u # P /\ Len(P) = Len(u) + 1 /\ SubSeq(P, 1, Len(u)) = u
                                                         THEN {"nested_watch_removed"} ELSE {})] IN
                   IF c.ret = "ok" THEN KTag(k1, "remove") ELSE KBad(k1, {"C17"}, "remove_failed:" \o c.ret)
              \* removing what a failed Add left behind: either answer, but afterwards nothing may be left
              ELSE IF P \in k.failed /\ c.ret \in {"ok", "ErrNonExistentWatch"}
                   THEN [k EXCEPT !.failed = @ \ {P}, !.flags = (@ \ {"failed_dir_add"}) \cup {"failed_dir_add_removed"}]
              ELSE IF c.ret = "ErrNonExistentWatch" THEN k
              \* an entry of a watched directory that the user never added: Remove must refuse; if it does not, the entry is no longer covered
              ELSE IF \E u \in DOMAIN k.ent : Len(P) = Len(u) + 1 /\ SubSeq(P, 1, Len(u)) = u /\ Known(k, u, P[Len(P)])
                   THEN KBad([k EXCEPT !.flags = @ \cup {"entry_removed_by_user"}], {"C17"}, "remove_nonexistent:" \o c.ret)
              ELSE KBad(k, {"C17"}, "remove_nonexistent:" \o c.ret)
    [] c.op = "watchlist" ->
         IF k.closed THEN (IF c.wlnil THEN k ELSE KBad(k, {"C17"}, "watchlist_after_close"))
         \* "only paths the user added": the spelling may be the user's own or the cleaned one
         ELSE LET CleanP(p) == IF IsAbs(p) THEN Clean(TRUE, Tail(p)) ELSE Clean(FALSE, p)
                  set == {CleanP(c.wl[i]) : i \in 1..Len(c.wl)} IN
              IF set = DOMAIN k.user /\ Len(c.wl) = Cardinality(set) THEN k
              ELSE KBad(k, {"C17"}, IF set \ DOMAIN k.user # {} THEN "watchlist_extra" ELSE "watchlist_missing")
    [] c.op = "close" -> [(IF c.ret = "ok" THEN k ELSE KBad(k, {"C17"}, "close_returned:" \o c.ret)) EXCEPT !.closed = TRUE, !.opt = PendToOpt(k), !.pend = EmptyFn]
    [] OTHER -> k

Call == /\ IsKind("call")
        /\ K' = IF K.on THEN CallK(K, Line) ELSE K
        /\ g' = IF K.on THEN g ELSE Infra("call without watcher")
        /\ Next1

KqUnion(a, b) == LET u == OrBits(a, b) IN IF HasBit(u, OpRemove) /\ HasBit(u, OpWrite) THEN u - OpWrite ELSE u
RECURSIVE PrefU(_, _)
PrefU(sq, m) == IF m = 1 THEN (IF HasBit(sq[1], OpRemove) /\ HasBit(sq[1], OpWrite) THEN sq[1] - OpWrite ELSE sq[1]) ELSE KqUnion(PrefU(sq, m - 1), sq[m])
Drop(f, name, m) == IF Len(f[name]) = m THEN Without(f, {name}) ELSE [f EXCEPT ![name] = SubSeq(@, m + 1, Len(@))]
Lens(f, v) == IF v.name \in DOMAIN f THEN {m \in 1..Len(f[v.name]) : PrefU(f[v.name], m) = v.op} ELSE {}

\* the set of possible successors (which prefix an event stands for may be ambiguous)
RecvK(k, v) ==
  CASE v.t = "err" -> {IF k.kfault /\ v.cls = "errno:ENOMEM"      \* the injected failure hit the reader while it was covering a new entry
                       THEN KTag([k EXCEPT !.kfault = FALSE, !.nunw = @ + 1], "entry_unwatchable")
                       ELSE KBad(k, {"C18"}, "error:" \o v.cls)}
    [] v.t = "closed" -> {IF ~k.closed THEN KBad(k, {"C17"}, "channel_closed_without_close")
                          ELSE IF v.ch = "ev" THEN [k EXCEPT !.evc = TRUE] ELSE [k EXCEPT !.errc = TRUE]}
    [] v.t = "ev" ->
         IF v.op = 0 THEN {KBad(k, {"C18"}, "empty_op")}
         ELSE IF Lens(k.pend, v) # {} THEN {KTag([k EXCEPT !.pend = Drop(@, v.name, m)], IF m > 1 THEN "merged_kevent" ELSE "event") : m \in Lens(k.pend, v)}
         ELSE IF Lens(k.opt, v) # {} THEN {[k EXCEPT !.opt = Drop(@, v.name, m)] : m \in Lens(k.opt, v)}
         ELSE IF v.name \in DOMAIN k.pend
              THEN {KBad([k EXCEPT !.pend = Drop(@, v.name, 1)], {"C18"}, "wrong_op:" \o OpName(k.pend[v.name][1]) \o "->" \o OpName(v.op))}
         ELSE {KBad(k, {"C18"}, (IF HasBit(v.op, OpCreate) THEN "phantom_or_repeated:" ELSE "phantom:") \o OpName(v.op))}
    [] OTHER -> {k}

Recv == /\ IsKind("recv")
        /\ \E nk \in RecvK(K, Line.val) : K' = nk
        /\ g' = [g EXCEPT !.events = @ + 1] /\ Next1

\* the stream is drained: every pending operation must have been reported
SettleK(k) ==
  IF k.closed THEN [k EXCEPT !.pend = EmptyFn, !.opt = EmptyFn]
  ELSE LET k1 == IF DOMAIN k.pend # {}
                 THEN LET nm == CHOOSE nm \in DOMAIN k.pend : TRUE IN KBad(k, {"C18"}, "lost:" \o OpName(k.pend[nm][1])) ELSE k
       IN [k1 EXCEPT !.pend = EmptyFn, !.opt = EmptyFn, !.fresh = TRUE]

Drain == /\ IsKind("drain")
         /\ LET S == IF Line.vals = <<>> THEN {K}
                     ELSE FoldLeft(LAMBDA acc, v : UNION {RecvK(x, v) : x \in acc}, {K}, Line.vals)
            IN \E x \in S : K' = IF Line.end = "idle" THEN SettleK(x) ELSE x
         /\ g' = IF Line.end = "unquiet" THEN Infra("drain ended unquiet") ELSE [g EXCEPT !.events = @ + Len(Line.vals)]
         /\ Next1

\* descriptors and tables (C17), observed at quiescence
ObsK(k, o) ==
  LET fdset == {o.fds[i].fd : i \in 1..Len(o.fds)}
      wdset == {o.wds[i] : i \in 1..Len(o.wds)}
      want  == (DOMAIN k.user \cup UNION {{EN(u, e.n) : e \in {x \in k.ent[u] : x.kind # "fifo"}} : u \in DOMAIN k.ent}) \ k.blind
      idle  == o.rd = "sync.Cond.Wait" /\ o.pendingnotes = 0
  IN
  IF k.closed THEN
       (IF o.rd = "gone" /\ (Len(o.fds) > 0 \/ o.nkq > 0 \/ o.npipe > 0)
        THEN KBad(k, {"C17"}, "descriptors_open_after_close") ELSE k)
  ELSE IF ~idle THEN k
  ELSE LET k1 == IF fdset # wdset THEN KBad(k, {"C17"}, IF fdset \ wdset # {} THEN "descriptor_outside_tables" ELSE "table_entry_without_descriptor") ELSE k
           k2 == IF Cardinality(fdset) > Cardinality(want) THEN KBad(k1, {"C17"}, "more_descriptors_than_watches")
                 ELSE IF Cardinality(fdset) < Cardinality(want) - k.nunw THEN KBad(k1, {"C17", "C18"}, "entry_not_watched") ELSE k1
           k3 == IF DOMAIN k.user = {} /\ (o.npath > 0 \/ o.nbydir > 0 \/ o.nseen > 0 \/ o.nbyuser > 0 \/ Len(o.wds) > 0)
                 THEN KBad(k2, {"C17"}, "table_entries_left_when_nothing_is_watched") ELSE k2
       IN KTag(k3, "obs_idle")

\* the injected failure has happened without a failing call or an error on Errors: it hit the reader while it was
\* covering a new entry of a watched directory (the backend drops that error): one entry is not watched
Silent(k, o) == IF k.kfault /\ o.kfaultleft = 0 THEN KTag([k EXCEPT !.kfault = FALSE, !.nunw = @ + 1], "entry_unwatchable") ELSE k
Obs == /\ IsKind("obs")
       /\ K' = IF K.on THEN ObsK(Silent(K, Line), Line) ELSE K
       /\ g' = [(IF ~Line.q THEN Infra("not quiescent at obs") ELSE g) EXCEPT
                   !.lastobs = [nfd |-> Len(Line.fds), npath |-> Line.npath, nbyuser |-> Line.nbyuser, nseen |-> Line.nseen]]
       /\ Next1

\* spec -> code: what the bounded model (KqueueTables, via MC_KqGen) predicted for the observation just made.  A difference
\* means the model no longer describes the code: MODEL-DRIFT, not a verdict on a property.
Kmodel == /\ IsKind("kmodel")
          /\ g' = LET o == g.lastobs
                      m == [nfd |-> Line.nfd, npath |-> Line.npath, nbyuser |-> Line.nbyuser, nseen |-> Line.nseen] IN
                  IF o = m THEN g ELSE [g EXCEPT !.drift = Append(@, [model |-> m, observed |-> o])]
          /\ K' = K /\ Next1
Hold == /\ IsKind("hold") /\ K' = K /\ g' = g /\ Next1

Kfault == /\ IsKind("kfault") /\ K' = [K EXCEPT !.kfault = TRUE] /\ g' = g /\ Next1

Crash == /\ IsKind("crash")
         /\ IF Line.go THEN K' = KBad(K, {"C17", "C18"}, "crash:" \o Line.cls) /\ g' = g
                       ELSE K' = K /\ g' = Infra("worker died without a Go panic, fatal error or race report (" \o Line.cls \o ")")
         /\ Next1
Unpriv == /\ IsKind("unpriv") /\ K' = KTag(K, "unprivileged_owner") /\ g' = g /\ Next1
Other == /\ l <= Len(Trace) /\ Line.k \in {"bad"} /\ K' = K /\ g' = Infra("bad step") /\ Next1

Next == (Reset \/ End \/ New \/ Fs \/ Call \/ Recv \/ Drain \/ Obs \/ Kmodel \/ Hold \/ Kfault \/ Unpriv \/ Crash \/ Other)
        /\ TLCSet(1, IF TLCGet(1) > l' THEN TLCGet(1) ELSE l')
Spec == Init /\ [][Next]_vars

Accepted ==
  LET hw == TLCGet(1)  R == TLCGet(3)  ids == SetToSeq(DOMAIN R) IN
  /\ JsonSerialize(OutFile, [consumed |-> hw - 1, total |-> Len(Trace), results |-> [k \in 1..Len(ids) |-> [id |-> ids[k], r |-> R[ids[k]]]]])
  /\ hw - 1 = Len(Trace)
=============================================================================

------------------------------ MODULE FdReuse ------------------------------
(***************************************************************************)
(* Descriptor numbers are a name space shared by every Watcher of the      *)
(* process, and each inotify instance numbers its watches from 1.  A       *)
(* Watcher keeps the *number* of its instance (w.fd) next to the file      *)
(* (w.inotifyFile).  Close marks the Watcher closed and closes the file;   *)
(* the number is released by the kernel only when the reader goroutine     *)
(* drops the last reference - and is handed to the next inotify_init1.     *)
(*                                                                         *)
(* Design rule checked here (C14, C13): once Close has closed the file, a  *)
(* Watcher issues no system call by number any more.  STALE_RM describes   *)
(* the design that breaks it (seeded change C14k: Close removes the        *)
(* watches of a recursive tree one by one after closing the file): the     *)
(* call can land in the instance of a Watcher created meanwhile and take   *)
(* away a watch that Watcher asked for.  Bound to the code by the scenario *)
(* family `closereuse` (Close racing NewWatcher/Add of other Watchers).    *)
(***************************************************************************)
EXTENDS Integers, FiniteSets

CONSTANTS Watchers, MaxAdd, STALE_RM

Fds == 1..Cardinality(Watchers)
Free == "free"

VARIABLES owner,     \* descriptor number -> the Watcher whose instance it names now, or Free
          marks,     \* descriptor number -> watch descriptors alive in that instance
          st,        \* Watcher -> "none" | "open" | "closing" (marked closed, file closed) | "closed" (Close has returned)
          fd,        \* Watcher -> the number it keeps (w.fd), 0 before NewWatcher
          released,  \* Watcher -> its reader has exited: the kernel has released the number
          tab,       \* Watcher -> watch descriptors in its own table
          foreign    \* some system call was made on another Watcher's instance
vars == <<owner, marks, st, fd, released, tab, foreign>>

Init == /\ owner = [n \in Fds |-> Free] /\ marks = [n \in Fds |-> {}]
        /\ st = [w \in Watchers |-> "none"] /\ fd = [w \in Watchers |-> 0]
        /\ released = [w \in Watchers |-> FALSE] /\ tab = [w \in Watchers |-> {}] /\ foreign = FALSE

LowestFree == CHOOSE n \in Fds : owner[n] = Free /\ \A m \in Fds : owner[m] = Free => n <= m

\* NewWatcher: inotify_init1 returns the lowest free number
New(w) == /\ st[w] = "none" /\ \E n \in Fds : owner[n] = Free
          /\ LET n == LowestFree IN
             /\ owner' = [owner EXCEPT ![n] = w] /\ marks' = [marks EXCEPT ![n] = {}] /\ fd' = [fd EXCEPT ![w] = n]
          /\ st' = [st EXCEPT ![w] = "open"] /\ UNCHANGED <<released, tab, foreign>>

\* Add under the mutex of an open Watcher: the instance hands out the next number, starting from 1
Add(w) == /\ st[w] = "open" /\ Cardinality(tab[w]) < MaxAdd
          /\ LET wd == Cardinality(marks[fd[w]]) + 1 IN
             /\ marks' = [marks EXCEPT ![fd[w]] = @ \cup {wd}] /\ tab' = [tab EXCEPT ![w] = @ \cup {wd}]
          /\ UNCHANGED <<owner, st, fd, released, foreign>>

\* Close, first half: shared.close() and inotifyFile.Close()
CloseBegin(w) == /\ st[w] = "open" /\ st' = [st EXCEPT ![w] = "closing"]
                 /\ UNCHANGED <<owner, marks, fd, released, tab, foreign>>

\* the reader goroutine returns from Read with ErrClosed: the last reference goes, the kernel frees the number
ReaderExit(w) == /\ st[w] = "closing" /\ ~released[w]
                 /\ owner' = [owner EXCEPT ![fd[w]] = Free] /\ marks' = [marks EXCEPT ![fd[w]] = {}]
                 /\ released' = [released EXCEPT ![w] = TRUE] /\ UNCHANGED <<st, fd, tab, foreign>>

\* the deviating design: inotify_rm_watch(w.fd, wd) for the rows of the table, after the file was closed
StaleRm(w) == /\ STALE_RM /\ st[w] = "closing" /\ tab[w] # {}
              /\ \E wd \in tab[w] :
                   /\ tab' = [tab EXCEPT ![w] = @ \ {wd}]
                   /\ IF owner[fd[w]] = Free THEN UNCHANGED <<marks, foreign>>            \* EBADF
                      ELSE /\ marks' = [marks EXCEPT ![fd[w]] = @ \ {wd}]                 \* success, or EINVAL if there is no such watch
                           /\ foreign' = (foreign \/ owner[fd[w]] # w)
              /\ UNCHANGED <<owner, st, fd, released>>

\* Close, second half: <-doneResp
CloseEnd(w) == /\ st[w] = "closing" /\ released[w] /\ (STALE_RM => tab[w] = {})
               /\ st' = [st EXCEPT ![w] = "closed"] /\ UNCHANGED <<owner, marks, fd, released, tab, foreign>>

Next == \E w \in Watchers : New(w) \/ Add(w) \/ CloseBegin(w) \/ ReaderExit(w) \/ StaleRm(w) \/ CloseEnd(w)
Spec == Init /\ [][Next]_vars

\* no system call of one Watcher ever lands in another Watcher's instance
NoForeignCall == ~foreign
\* an open Watcher has exactly the kernel watches it asked for, whatever other Watchers do (C14)
Independent == \A w \in Watchers : st[w] = "open" => (owner[fd[w]] = w /\ marks[fd[w]] = tab[w])
\* Close releases the number (C13), and numbers are never shared
Released == \A w \in Watchers : st[w] = "closed" => released[w]
OneOwner == \A v, w \in Watchers : (v # w /\ st[v] = "open" /\ st[w] = "open") => fd[v] # fd[w]
=============================================================================

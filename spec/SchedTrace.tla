----------------------------- MODULE SchedTrace -----------------------------
(***************************************************************************)
(* Implementation-level conformance of the concurrency protocol: logs of   *)
(* real executions (harness/cmd/inostress -mode sched: two API goroutines, *)
(* a file system goroutine and a polling consumer around ONE watched file  *)
(* and an unbuffered Watcher) are validated against the code-shaped model  *)
(* InotifySched.  Only what can be seen from outside is logged - call and  *)
(* return of every API call with its result, begin and end of every file   *)
(* system operation and of every successful receive with its value, all    *)
(* ordered by one atomic stamp.  The steps of the reader goroutine, the    *)
(* mutex, the critical sections and the kernel queue are not logged: they  *)
(* are silent steps of the model, and TLC searches for a schedule of them  *)
(* that explains the log.  A program for which no schedule exists behaves  *)
(* in a way the model of the design cannot: a violation (C07; C05 / C06    *)
(* for what concerns blocking and the close protocol).                     *)
(*                                                                         *)
(* Programs are concatenated; Abandon moves on so that one unexplained     *)
(* program does not hide the others.                                       *)
(***************************************************************************)
EXTENDS InotifySched, Json, IOUtils, SequencesExt

TraceFile == IF "TRACE" \in DOMAIN IOEnv THEN IOEnv.TRACE ELSE "sched.ndjson"
OutFile   == IF "TRACE_OUT" \in DOMAIN IOEnv THEN IOEnv.TRACE_OUT ELSE "sched.out.json"
Trace == ndJsonDeserialize(TraceFile)

VARIABLES l,        \* next line
          prog,     \* index of the current program
          pfs,      \* the file system operation in flight: "none", its name, or "done"
          prv       \* the receive in flight: [st |-> "none" | "want" | "got", ch, val]
tvars == <<vars, l, prog, pfs, prv>>

NoRv == [st |-> "none", ch |-> "", val |-> ""]
Line == Trace[l]
Is(k) == l <= Len(Trace) /\ Line.k = k
Next1 == l' = l + 1

TInit == /\ Init /\ l = 1 /\ prog = -1 /\ pfs = "none" /\ prv = NoRv
         /\ TLCSet(1, 1) /\ TLCSet(3, [x \in {} |-> TRUE])

Prog == /\ Is("prog")
        /\ kq' = <<>> /\ kmark' = 0 /\ gen' = 1 /\ nfs' = 0 /\ ovfd' = FALSE /\ fdOpen' = TRUE /\ fnamed' = TRUE /\ falive' = TRUE
        /\ mu' = "free" /\ done' = FALSE /\ doneResp' = FALSE /\ evq' = <<>> /\ evClosed' = FALSE /\ errClosed' = FALSE /\ tab' = 0
        /\ rd' = [pc |-> "top", buf |-> <<>>, cur |-> [k |-> "none", w |-> 0], out |-> "none", err |-> "none"]
        /\ th' = [t \in Threads |-> Idle] /\ errs' = <<>> /\ closeRet' = FALSE
        /\ prog' = Line.idx /\ pfs' = "none" /\ prv' = NoRv /\ Next1

\* ---- observed steps ---------------------------------------------------------
Res(r) == IF r = "errno:ENOENT" THEN "ENOENT" ELSE IF r = "errno:EBADF" THEN "EBADF" ELSE IF r = "errno:EINVAL" THEN "EINVAL" ELSE r
TCall == /\ Is("call") /\ Line.t \in Threads /\ th[Line.t].pc = "idle"
         /\ th' = [th EXCEPT ![Line.t] = [pc |-> IF Line.op = "close" THEN "c1" ELSE "check", op |-> Line.op, res |-> "none"]]
         /\ UNCHANGED <<kq, kmark, gen, nfs, ovfd, fnamed, falive, fdOpen, mu, done, doneResp, evq, evClosed, errClosed, tab, rd, errs, closeRet, prog, pfs, prv>>
         /\ Next1
TRet == /\ Is("ret") /\ Line.t \in Threads /\ th[Line.t].pc = "ret" /\ th[Line.t].op = Line.op /\ th[Line.t].res = Res(Line.res)
        /\ th' = [th EXCEPT ![Line.t] = Idle]
        /\ UNCHANGED <<kq, kmark, gen, nfs, ovfd, fnamed, falive, fdOpen, mu, done, doneResp, evq, evClosed, errClosed, tab, rd, errs, closeRet, prog, pfs, prv>>
        /\ Next1
FsBegin == /\ Is("fsb") /\ pfs = "none" /\ pfs' = Line.op /\ UNCHANGED <<vars, prog, prv>> /\ Next1
FsEnd == /\ Is("fse") /\ pfs \in {"done:chmod", "done:move", "done:delete"} /\ pfs' = "none" /\ UNCHANGED <<vars, prog, prv>> /\ Next1
RvBegin == /\ Is("rvb") /\ prv.st = "none" /\ prv' = [NoRv EXCEPT !.st = "want"] /\ UNCHANGED <<vars, prog, pfs>> /\ Next1
RvEnd == /\ Is("rve") /\ prv.st = "got" /\ prv.ch = Line.op /\ prv.val = Line.res
         /\ prv' = NoRv /\ UNCHANGED <<vars, prog, pfs>> /\ Next1

\* ---- silent steps -------------------------------------------------------------
\* The operation in flight takes effect.  The kernel is finer grained than the design-level model: a delete first drops
\* the link (IN_ATTRIB to the marks the inode has then), later the inode goes (IN_DELETE_SELF, IN_IGNORED to the marks it
\* has THEN); a path-based inotify_add_watch that looked the name up before a rename or unlink may attach its mark after
\* that operation's notification pass (RacingAdd).  These are facts about the environment, not about the library.
FsDo == /\ pfs \in {"chmod", "move"}
        /\ CASE pfs = "chmod" -> FsChmod [] pfs = "move" -> FsMove
        /\ pfs' = "done:" \o pfs /\ UNCHANGED <<l, prog, prv>>
\* the kernel merges a record that is identical to the unread tail of the queue
TailEv == fdOpen /\ kmark # 0 /\ kq # <<>> /\ kq[Len(kq)] = R("ev", kmark)
FsMerged == /\ TailEv /\ pfs = "chmod" /\ falive /\ pfs' = "done:chmod" /\ UNCHANGED <<vars, l, prog, prv>>
FsDel1 == /\ pfs = "delete" /\ falive /\ fnamed' = FALSE /\ pfs' = "delete2"
          /\ kq' = IF fdOpen /\ kmark # 0 /\ ~TailEv THEN Enq(kq, R("ev", kmark)) ELSE kq
          /\ UNCHANGED <<kmark, gen, nfs, ovfd, falive, fdOpen, mu, done, doneResp, evq, evClosed, errClosed, tab, rd, th, errs, closeRet, l, prog, prv>>
FsDel2 == /\ pfs = "delete2" /\ falive' = FALSE /\ pfs' = "done:delete"
          /\ IF fdOpen /\ kmark # 0 THEN kq' = Enq(Enq(kq, R("delself", kmark)), R("ignored", kmark)) /\ kmark' = 0 ELSE UNCHANGED <<kq, kmark>>
          /\ UNCHANGED <<gen, nfs, ovfd, fnamed, fdOpen, mu, done, doneResp, evq, evClosed, errClosed, tab, rd, th, errs, closeRet, l, prog, prv>>
\* a file system operation that finds nothing to act on (chmod / delete of a file that is gone already)
FsNop == /\ pfs \in {"chmod", "delete"} /\ ~falive /\ pfs' = "done:" \o pfs /\ UNCHANGED <<vars, l, prog, prv>>
\* Add's name look-up preceded the rename / unlink in flight, its mark is attached afterwards
RacingAdd(t) == /\ th[t].pc = "cs" /\ mu = t /\ th[t].op = "add" /\ fdOpen /\ ~(FIX_RACE /\ done)
                /\ ~fnamed /\ falive /\ pfs \in {"delete2", "done:move"}
                /\ mu' = "free" /\ kmark' = (IF kmark # 0 THEN kmark ELSE gen) /\ tab' = kmark' /\ gen' = (IF kmark # 0 THEN gen ELSE gen + 1)
                /\ th' = [th EXCEPT ![t] = [@ EXCEPT !.pc = "ret", !.res = "ok"]]
                /\ UNCHANGED <<kq, nfs, ovfd, fnamed, falive, fdOpen, done, doneResp, evq, evClosed, errClosed, rd, errs, closeRet, l, prog, pfs, prv>>
\* the receive in flight happens: an event, an error, or the observation that a channel was closed
RvEv == /\ prv.st = "want" /\ (evq # <<>> \/ (rd.pc = "evSend" /\ Cap = 0))
        /\ prv' = [st |-> "got", ch |-> "ev", val |-> IF evq # <<>> THEN Head(evq) ELSE rd.out]
        /\ RecvEv /\ UNCHANGED <<fsx, gen, l, prog, pfs>>
ErrName(e) == IF e = "overflow" THEN "overflow" ELSE "errno:" \o e
RvErr == /\ prv.st = "want" /\ rd.pc \in {"ovfSend", "errSend"}
         /\ prv' = [st |-> "got", ch |-> "err", val |-> IF rd.pc = "ovfSend" THEN "overflow" ELSE ErrName(rd.err)]
         /\ RecvErr /\ UNCHANGED <<fsx, gen, l, prog, pfs>>
RvClosed == /\ prv.st = "want"
            /\ \/ evClosed /\ prv' = [st |-> "got", ch |-> "ev", val |-> "closed"]
               \/ errClosed /\ prv' = [st |-> "got", ch |-> "err", val |-> "closed"]
            /\ UNCHANGED <<vars, l, prog, pfs>>
Silent == \/ (Reader /\ UNCHANGED <<l, prog, pfs, prv>>)
          \/ (\E t \in Threads : ApiProg(t) /\ UNCHANGED <<l, prog, pfs, prv>>)
          \/ FsDo \/ FsMerged \/ FsDel1 \/ FsDel2 \/ FsNop \/ (\E t \in Threads : RacingAdd(t)) \/ RvEv \/ RvErr \/ RvClosed

\* ---- bookkeeping --------------------------------------------------------------
Skip == /\ (Is("crash") \/ Is("infra")) /\ UNCHANGED <<vars, prog, pfs, prv>> /\ Next1
EndProg == /\ Is("endprog") /\ \A t \in Threads : th[t].pc = "idle"
           /\ TLCSet(3, (prog :> TRUE) @@ TLCGet(3))
           /\ UNCHANGED <<vars, prog, pfs, prv>> /\ Next1
ProgLines == {j \in 1..Len(Trace) : Trace[j].k = "prog"}
NextProg == LET S == {j \in ProgLines : j > l} IN IF S = {} THEN 0 ELSE CHOOSE j \in S : \A k \in S : j <= k
Abandon == /\ l <= Len(Trace) /\ prog >= 0 /\ ~Is("prog") /\ NextProg # 0
           /\ l' = NextProg /\ UNCHANGED <<vars, prog, pfs, prv>>

TNext == (Prog \/ TCall \/ TRet \/ FsBegin \/ FsEnd \/ RvBegin \/ RvEnd \/ Silent \/ Skip \/ EndProg \/ Abandon)
         /\ TLCSet(1, IF TLCGet(1) > l' THEN TLCGet(1) ELSE l')
TSpec == TInit /\ [][TNext]_tvars

Accepted ==
  LET ok == TLCGet(3)
      ends == {i \in 1..Len(Trace) : Trace[i].k = "endprog"} IN
  JsonSerialize(OutFile, [explained |-> SetToSeq(DOMAIN ok),
                          programs |-> SetToSeq({Trace[i].idx : i \in ProgLines}),
                          hung |-> SetToSeq({<<Trace[i].idx, Trace[i].hang>> : i \in {j \in ends : Trace[j].hang # <<>>}}),
                          crashed |-> SetToSeq({<<Trace[i].idx, Trace[i].cls>> : i \in {j \in 1..Len(Trace) : Trace[j].k = "crash"}}),
                          total |-> Len(Trace), reached |-> TLCGet(1)])
=============================================================================

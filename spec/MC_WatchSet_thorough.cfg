SPECIFICATION Spec
CONSTANTS
  MaxSteps = 8
  MaxIno = 5
  FIX_REPOINT = TRUE
INVARIANTS NoPanic TablesAgree MarksBacked ListOK
CHECK_DEADLOCK FALSE

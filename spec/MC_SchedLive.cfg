SPECIFICATION FairSpec
CONSTANTS
  t1 = t1
  t2 = t2
  Threads <- MCThreads
  Cap = 0
  MaxFs = 2
  MaxQ = 2
  FIX_ERR = TRUE
  FIX_RACE = TRUE
  FIX_RDCLOSED = TRUE
PROPERTY Returns ClosedPromptly
CHECK_DEADLOCK FALSE

---------------------------- MODULE InotifyEvents ----------------------------
(***************************************************************************)
(* Code-shaped model of the event path of the inotify backend: the kernel  *)
(* queue (tail merge, every batching of records into one read), the decode *)
(* loop, handleEvent (nil-watch skip, IN_IGNORED, IN_DELETE_SELF with the  *)
(* parent-listed rule, IN_MOVE_SELF), newEvent (mask translation from      *)
(* Ops.tla, the rename-cookie ring of RingSize slots), sendEvent with the  *)
(* Op == 0 drop, and the Events channel of capacity Cap with a free        *)
(* consumer.  A watched directory D with entries over Names, optionally    *)
(* also a watch on the file D/x; entries can be created, written, chmod'ed,*)
(* removed, renamed within D, moved out and moved in.                      *)
(*                                                                         *)
(* Checked over all histories up to MaxOps operations, all batchings and   *)
(* all consumer paces (C01, C02, C03, C08, C11): what was delivered is     *)
(* always a prefix of the translation of the kernel's record sequence      *)
(* (nothing phantom, nothing reordered, names = watch path + entry name),  *)
(* equal to it when everything is drained (nothing lost), and a Create     *)
(* carries the old name exactly when its record is the MOVED_TO half of a  *)
(* move whose MOVED_FROM half was recorded by this Watcher.                *)
(***************************************************************************)
EXTENDS Integers, Sequences, FiniteSets, TLC, Ops

CONSTANTS Names, MaxOps, Cap, RingSize, WatchFile,
          HELD,            \* a descriptor may be opened on the file that carries the D/x watch: it then outlives its name (C09)
          STRICT_REMOVE    \* the ghost expects a Remove from the end of the D/x watch unless D itself reports the removal (the
                           \* property, C09); FALSE: it follows the code, which stays silent whenever D is listed (known finding)

VARIABLES present,     \* entry names that exist in D
          fmark,       \* the entry name whose file carries the kernel mark of the watch on D/x ("" none, "*" moved out of D)
          w2end,       \* ghost: the end of that watch (IN_MOVE_SELF / IN_DELETE_SELF) has been queued
          held,        \* the name in D of the file somebody holds a descriptor on ("" nobody, "#" it was moved out of D)
          hgone,       \* ... that name has been unlinked or overwritten: the file lives on, and the kernel keeps reporting what is
                       \* done through the descriptor to D under the old name (what IN_EXCL_UNLINK would switch off)
          prepd,       \* ghost: D's watch has reported the removal of the file that carries the D/x watch (IN_DELETE for its name)
          cookie,      \* kernel rename cookie counter
          kq,          \* kernel queue of records [wd, m, n, ck]   (wd 1 = D, wd 2 = D/x, 0 = none)
          nops,
          tab,         \* set of wds in the tables
          buf,         \* records read but not yet handled
          out,         \* event waiting in sendEvent, or NoEv
          ring, ridx,  \* rename cookie ring
          evq,         \* Events channel buffer
          want,        \* ghost: translation of every record queued for a live watch, in order
          got          \* ghost: what the consumer received
vars == <<present, fmark, w2end, held, hgone, prepd, cookie, kq, nops, tab, buf, out, ring, ridx, evq, want, got>>

NoEv == [name |-> <<>>, op |-> 0, from |-> <<>>]
WatchPath(wd) == IF wd = 1 THEN <<"D">> ELSE <<"D", "x">>

Init == /\ present = {"x"} /\ fmark = (IF WatchFile THEN "x" ELSE "") /\ w2end = FALSE /\ held = "" /\ hgone = FALSE /\ prepd = FALSE /\ cookie = 0 /\ kq = <<>> /\ nops = 0
        /\ tab = IF WatchFile THEN {1, 2} ELSE {1}
        /\ buf = <<>> /\ out = NoEv /\ ring = [i \in 1..RingSize |-> [ck |-> 0, path |-> <<>>]] /\ ridx = 1
        /\ evq = <<>> /\ want = <<>> /\ got = <<>>

---------------------------------------------------------------------------
\* Kernel: records are appended unless identical (wd, mask, name) to the unread tail
Rec(wd, m, n, ck) == [wd |-> wd, m |-> m, n |-> n, ck |-> ck]
Enq(q, r) == IF q # <<>> /\ q[Len(q)].wd = r.wd /\ q[Len(q)].m = r.m /\ q[Len(q)].n = r.n THEN q ELSE Append(q, r)
RECURSIVE EnqAll(_, _)
EnqAll(q, rs) == IF rs = <<>> THEN q ELSE EnqAll(Enq(q, Head(rs)), Tail(rs))

\* the ideal translation of one record (what the user must eventually receive), for the ghost
Xlate(r, ckmap) ==
  [name |-> IF r.n = "" THEN WatchPath(r.wd) ELSE Append(WatchPath(r.wd), r.n),
   op |-> InotifyOpOf(r.m),
   from |-> IF HasBit(r.m, IN_MOVED_TO) /\ r.ck # 0 /\ r.ck \in DOMAIN ckmap THEN ckmap[r.ck] ELSE <<>>]

\* ghost bookkeeping: which records count (merged ones do not: they were never queued)
Account(q, rs, w, e, pd) ==
  LET RECURSIVE Go(_, _, _, _)
      Go(qq, rr, ww, ee) ==
                        IF rr = <<>> THEN [w |-> ww, e |-> ee]
                        ELSE LET r == Head(rr)
                                 merged == qq # <<>> /\ qq[Len(qq)].wd = r.wd /\ qq[Len(qq)].m = r.m /\ qq[Len(qq)].n = r.n
                                 house == HasBit(r.m, IN_IGNORED) \/ InotifyOpOf(r.m) = 0
                                 \* a DELETE_SELF of D/x while D is listed is reported by D's IN_DELETE only
                                 dup == r.wd = 2 /\ HasBit(r.m, IN_DELETE_SELF)
                                        /\ (~STRICT_REMOVE \/ pd \/ \E k \in 1..Len(rs) : rs[k].wd = 1 /\ HasBit(rs[k].m, IN_DELETE))
                                 \* records of the D/x watch behind its own end are skipped by the reader (the watch is gone by then)
                                 late == r.wd = 2 /\ ee
                                 ends == r.wd = 2 /\ (HasBit(r.m, IN_MOVE_SELF) \/ HasBit(r.m, IN_DELETE_SELF))
                             IN Go(Enq(qq, r), Tail(rr), IF merged \/ house \/ dup \/ late THEN ww ELSE Append(ww, r), ee \/ ends)
  IN Go(q, rs, w, e)

FsStep(rs) == /\ nops < MaxOps /\ nops' = nops + 1
              /\ kq' = EnqAll(kq, rs)
              /\ want' = Account(kq, rs, want, w2end, prepd).w /\ w2end' = Account(kq, rs, want, w2end, prepd).e
              /\ UNCHANGED <<tab, buf, out, ring, ridx, evq, got>>

OnFile(n, m) == IF fmark = n THEN <<Rec(2, m, "", 0)>> ELSE <<>>
\* the file that carries the mark outlives its name while somebody holds it (held = its name)
Kept(n) == held = n /\ ~hgone
Create(n) == /\ n \notin present /\ present' = present \cup {n} /\ UNCHANGED <<fmark, held, hgone, prepd, cookie>>
             /\ FsStep(<<Rec(1, IN_CREATE, n, 0)>>)
Write(n)  == /\ n \in present /\ UNCHANGED <<present, fmark, held, hgone, prepd, cookie>>
             /\ FsStep(<<Rec(1, IN_MODIFY, n, 0)>> \o OnFile(n, IN_MODIFY))
Chmod(n)  == /\ n \in present /\ UNCHANGED <<present, fmark, held, hgone, prepd, cookie>>
             /\ FsStep(<<Rec(1, IN_ATTRIB, n, 0)>> \o OnFile(n, IN_ATTRIB))
Unlink(n) == /\ n \in present /\ present' = present \ {n} /\ UNCHANGED cookie
             /\ fmark' = (IF fmark = n THEN (IF Kept(n) THEN "#" ELSE "") ELSE fmark)
             /\ hgone' = (hgone \/ Kept(n)) /\ UNCHANGED held
             /\ prepd' = (prepd \/ fmark = n)
             \* link count changes (IN_ATTRIB on the file); the last reference goes with the name unless the file is held: then
             \* the directory reports first and the file's own end comes with the last close
             /\ FsStep((IF fmark = n THEN <<Rec(2, IN_ATTRIB, "", 0)>> ELSE <<>>)
                       \o (IF fmark = n /\ ~Kept(n) THEN <<Rec(2, IN_DELETE_SELF, "", 0), Rec(2, IN_IGNORED, "", 0)>> ELSE <<>>)
                       \o <<Rec(1, IN_DELETE, n, 0)>>)
Rename(a, b) == /\ a \in present /\ a # b /\ present' = (present \ {a}) \cup {b} /\ cookie' = cookie + 1 /\ UNCHANGED prepd
                \* the mark follows the renamed file (until the reader gets to its IN_MOVE_SELF); an overwritten marked file is released
                \* (unless it is held: then it lives on without a name)
                /\ fmark' = (IF fmark = a THEN b ELSE IF fmark = b THEN (IF Kept(b) THEN "#" ELSE "") ELSE fmark)
                /\ held' = (IF Kept(a) THEN b ELSE held) /\ hgone' = (hgone \/ (Kept(b) /\ b \in present))
                /\ FsStep(<<Rec(1, IN_MOVED_FROM, a, cookie + 1), Rec(1, IN_MOVED_TO, b, cookie + 1)>>
                          \o (IF fmark = b /\ b \in present THEN <<Rec(2, IN_ATTRIB, "", 0)>> ELSE <<>>)
                          \o OnFile(a, IN_MOVE_SELF)
                          \o (IF fmark = b /\ b \in present /\ ~Kept(b) THEN <<Rec(2, IN_DELETE_SELF, "", 0), Rec(2, IN_IGNORED, "", 0)>> ELSE <<>>))
MoveOut(a) == /\ a \in present /\ present' = present \ {a} /\ cookie' = cookie + 1 /\ fmark' = (IF fmark = a THEN "*" ELSE fmark)
              /\ held' = (IF Kept(a) THEN "#" ELSE held) /\ UNCHANGED <<hgone, prepd>>
              /\ FsStep(<<Rec(1, IN_MOVED_FROM, a, cookie + 1)>> \o OnFile(a, IN_MOVE_SELF))
MoveIn(b)  == /\ b \notin present /\ present' = present \cup {b} /\ cookie' = cookie + 1 /\ UNCHANGED <<fmark, held, hgone, prepd>>
              /\ FsStep(<<Rec(1, IN_MOVED_TO, b, cookie + 1)>>)
\* somebody opens the watched file, writes through the descriptor, closes it (IN_OPEN / IN_CLOSE are not subscribed to)
Open == /\ HELD /\ held = "" /\ fmark \in Names /\ held' = fmark /\ hgone' = FALSE /\ UNCHANGED <<present, fmark, prepd, cookie>> /\ FsStep(<<>>)
FdWrite == /\ held # "" /\ UNCHANGED <<present, fmark, held, hgone, prepd, cookie>>
           /\ FsStep((IF held \in Names THEN <<Rec(1, IN_MODIFY, held, 0)>> ELSE <<>>)
                     \o (IF (Kept(held) /\ fmark = held) \/ (hgone /\ fmark = "#") \/ (held = "#" /\ fmark = "*") THEN <<Rec(2, IN_MODIFY, "", 0)>> ELSE <<>>))
Release == /\ held # "" /\ held' = "" /\ hgone' = FALSE /\ UNCHANGED <<present, prepd, cookie>>
           /\ fmark' = (IF fmark = "#" THEN "" ELSE fmark)
           /\ FsStep(IF fmark = "#" THEN <<Rec(2, IN_DELETE_SELF, "", 0), Rec(2, IN_IGNORED, "", 0)>> ELSE <<>>)
Fs == \/ \E a \in Names : Create(a) \/ Write(a) \/ Chmod(a) \/ Unlink(a) \/ MoveOut(a) \/ MoveIn(a) \/ \E b \in Names : Rename(a, b)
      \/ Open \/ FdWrite \/ Release

---------------------------------------------------------------------------
\* Reader
Read == /\ buf = <<>> /\ out = NoEv /\ kq # <<>>
        /\ \E k \in 1..Len(kq) : buf' = SubSeq(kq, 1, k) /\ kq' = SubSeq(kq, k + 1, Len(kq))
        /\ UNCHANGED <<present, fmark, w2end, held, hgone, prepd, cookie, nops, tab, out, ring, ridx, evq, want, got>>

\* newEvent: mask translation and the cookie ring
Lookup(ck) == LET S == {i \in 1..RingSize : ring[i].ck = ck} IN
              IF S = {} THEN <<>> ELSE ring[CHOOSE i \in S : \A j \in S : i <= j].path
\* handleEvent + newEvent for the head of buf; the result waits in `out` (sendEvent drops Op == 0)
Handle ==
  /\ buf # <<>> /\ out = NoEv
  /\ LET r == Head(buf)
         name == IF r.n = "" THEN WatchPath(r.wd) ELSE Append(WatchPath(r.wd), r.n)
         live == r.wd \in tab
         ign  == HasBit(r.m, IN_IGNORED)
         dself == HasBit(r.m, IN_DELETE_SELF)
         mself == HasBit(r.m, IN_MOVE_SELF)
         ends == live /\ (ign \/ dself \/ mself)
         parentListed == r.wd = 2 /\ 1 \in tab                         \* filepath.Dir(watch.path) is in the path table
         skip == ~live \/ ign \/ (dself /\ parentListed)
         op == InotifyOpOf(r.m)
         stores == live /\ ~skip /\ HasBit(r.m, IN_MOVED_FROM) /\ r.ck # 0
         from == IF HasBit(r.m, IN_MOVED_TO) /\ r.ck # 0 THEN Lookup(r.ck) ELSE <<>>
     IN /\ buf' = Tail(buf)
        /\ tab' = IF ends THEN tab \ {r.wd} ELSE tab
        /\ out' = IF skip \/ op = 0 THEN NoEv ELSE [name |-> name, op |-> op, from |-> from]
        /\ IF stores THEN ring' = [ring EXCEPT ![ridx] = [ck |-> r.ck, path |-> name]] /\ ridx' = IF ridx = RingSize THEN 1 ELSE ridx + 1
                     ELSE UNCHANGED <<ring, ridx>>
        \* IN_MOVE_SELF of a listed watch: w.remove(watch.path) also asks the kernel to drop the watch -> IN_IGNORED
        /\ IF live /\ mself /\ fmark # ""
           THEN kq' = Enq(kq, Rec(2, IN_IGNORED, "", 0)) /\ fmark' = ""
           ELSE UNCHANGED <<kq, fmark>>
  /\ UNCHANGED <<present, w2end, held, hgone, prepd, cookie, nops, evq, want, got>>

Send == /\ out # NoEv /\ Len(evq) < Cap
        /\ evq' = Append(evq, out) /\ out' = NoEv
        /\ UNCHANGED <<present, fmark, w2end, held, hgone, prepd, cookie, kq, nops, tab, buf, ring, ridx, want, got>>

\* Consumer (free): from the buffer, or the rendezvous with a parked sender
Recv == /\ \/ /\ evq # <<>> /\ got' = Append(got, Head(evq)) /\ evq' = Tail(evq) /\ UNCHANGED out
           \/ /\ evq = <<>> /\ out # NoEv /\ Cap = 0 /\ got' = Append(got, out) /\ out' = NoEv /\ UNCHANGED evq
        /\ UNCHANGED <<present, fmark, w2end, held, hgone, prepd, cookie, kq, nops, tab, buf, ring, ridx, want>>

Next == Fs \/ Read \/ Handle \/ Send \/ Recv
Spec == Init /\ [][Next]_vars

---------------------------------------------------------------------------
\* the ideal rename correlation over the whole record sequence
CkMap == LET S == {i \in 1..Len(want) : HasBit(want[i].m, IN_MOVED_FROM) /\ want[i].ck # 0} IN
         [c \in {want[i].ck : i \in S} |-> LET i == CHOOSE i \in S : want[i].ck = c IN Append(WatchPath(want[i].wd), want[i].n)]
Ideal(i) == Xlate(want[i], CkMap)
\* C02 / C03 / C08: everything received is the translation of the records, in their order, under the watch's path
InOrder == /\ Len(got) <= Len(want)
           /\ \A i \in 1..Len(got) : got[i].name = Ideal(i).name /\ got[i].op = Ideal(i).op /\ got[i].op # 0
\* C11: the old name is carried exactly by the MOVED_TO half of a move whose MOVED_FROM half this Watcher recorded
\* (RingSize bounds how many unmatched halves may lie in between; the configuration keeps MaxOps below it)
Correlated == \A i \in 1..Len(got) : got[i].from = Ideal(i).from
\* C01: nothing is lost - once everything is drained the two sequences are equal
Drained == kq = <<>> /\ buf = <<>> /\ out = NoEv /\ evq = <<>>
NoLoss == Drained => Len(got) = Len(want)
=============================================================================

--------------------------- MODULE InotifyRecurse ---------------------------
(***************************************************************************)
(* Code-shaped model of the recursive-watch bookkeeping of the inotify     *)
(* backend (C19): AddWith's WalkDir registration, inotify.register /       *)
(* watches.updatePath, watches.removePath with its "descendants by string  *)
(* prefix" loop, and the part of handleEvent that concerns recursive       *)
(* watches - a new directory is registered under watch.path + "/" + name,  *)
(* a directory moved inside the tree has its own row and the rows of its   *)
(* descendants rewritten by string prefix.                                 *)
(*                                                                         *)
(* Universe: two top-level directories "a" and "ab" (inodes 1 and 2: their *)
(* names share a string prefix, as do the names of inner directories),     *)
(* each of which the user may watch recursively; inner directories are     *)
(* created one level at a time (nothing else happens until that Create     *)
(* has been handled - the property's quantifier), renamed and moved inside *)
(* their tree, and removed; renames may pile up in the kernel queue.       *)
(* Paths are sequences of components; the string operations of the code    *)
(* (HasPrefix, slicing) are transcribed on that representation, a rewrite  *)
(* that cuts a component in two yields the junk component "?".             *)
(*                                                                         *)
(* Checked for all histories up to MaxSteps: every event is named with the *)
(* true path the object had when the operation was made (TrueNames); with  *)
(* the queue drained, exactly the directories of the watched trees are     *)
(* marked and each is listed under its true current path (Covered,         *)
(* OwnTreeOnly); nothing is put on Errors (NoSpuriousError).               *)
(* FIX_BOUNDARY / FIX_REKEY / FIX_ENOENT / FIX_MOVED / FIX_RMALL describe  *)
(* the repaired defects D4 (two parts), D8, D10 (found by this model) and  *)
(* D11 (found by replaying this model's lagging-reader behaviours);        *)
(* FIX_PATHKEY D13 (a directory renamed over an empty one).                *)
(***************************************************************************)
EXTENDS Integers, Sequences, FiniteSets, TLC, SequencesExt

CONSTANTS MaxIno, MaxSteps, FIX_BOUNDARY, FIX_REKEY, FIX_ENOENT,
          REUSE_EARLY,   \* a new directory may be removed, and a regular file made, before the reader has handled its Create
                         \* (outside C19's quantifier - "each followed by delivery of its Create event" - but inside C02's)
          FIX_ONLYDIR,   \* D12 repaired: a new directory is registered with IN_ONLYDIR|IN_DONT_FOLLOW (something else may have the name by now)
          FIX_PATHKEY,   \* D13 repaired: dropping a watch deletes the path key only if it still belongs to that watch
          FIX_RMALL,     \* D11 repaired: Remove releases every kernel watch of the tree even if inotify_rm_watch fails for one of them
          FIX_MOVED      \* D10 repaired: a directory moved inside the tree is not looked up by path again (it is watched already)

Comp == {"a", "ab"}
StrPre(x, y) == x = y \/ (y = "a" /\ x = "ab")        \* the string x starts with the string y
Roots == {1, 2}

VARIABLES parent, nm, alive, nextIno,      \* the directory tree (inodes 1, 2: the top-level directories "a", "ab")
          files,                           \* inodes that are regular files (created under a name a directory just had)
          marks, nextWd, kq,               \* kernel: marks [wd, ino]; queue of records
          wdT, pathT,                      \* w.watches.wd as a set of [wd, path], w.watches.path as a set of [path, wd]
          ck, nextCk,                      \* rename cookies: cookie -> name recorded at MOVED_FROM
          added,                           \* roots the user watches recursively
          bad,                             \* ghost: what went wrong
          steps
vars == <<parent, nm, alive, nextIno, files, marks, nextWd, kq, wdT, pathT, ck, nextCk, added, bad, steps>>

RECURSIVE TruePath(_)
TruePath(i) == IF parent[i] = 0 THEN <<nm[i]>> ELSE Append(TruePath(parent[i]), nm[i])
RECURSIVE Under(_, _)
Under(i, r) == i = r \/ (parent[i] # 0 /\ Under(parent[i], r))
RootOf(i) == CHOOSE r \in Roots : Under(i, r)
Resolve(p) == LET S == {i \in alive : TruePath(i) = p} IN IF S = {} THEN 0 ELSE CHOOSE i \in S : TRUE
WdOfIn(mk, i) == LET S == {m.wd : m \in {m \in mk : m.ino = i}} IN IF S = {} THEN 0 ELSE CHOOSE w \in S : TRUE

\* strings.HasPrefix(p, q + "/")  and  strings.HasPrefix(p, q)  on component sequences
PrefixSlash(p, q) == Len(p) > Len(q) /\ SubSeq(p, 1, Len(q)) = q
PrefixRaw(p, q) == /\ Len(q) >= 1 /\ Len(p) >= Len(q)
                   /\ SubSeq(p, 1, Len(q) - 1) = SubSeq(q, 1, Len(q) - 1)
                   /\ StrPre(p[Len(q)], q[Len(q)])
\* newName + p[len(old):]  (string slicing): junk unless the cut falls on a component boundary
Rewrite(p, old, new) == IF SubSeq(p, 1, Len(old)) = old THEN new \o SubSeq(p, Len(old) + 1, Len(p)) ELSE <<"?">>

Init == /\ parent = [i \in 1..MaxIno |-> 0] /\ nm = [i \in 1..MaxIno |-> IF i = 2 THEN "ab" ELSE "a"]
        /\ alive = {1, 2} /\ nextIno = 3 /\ files = {}
        /\ marks = {} /\ nextWd = 1 /\ kq = <<>> /\ wdT = {} /\ pathT = {}
        /\ ck = [c \in {} |-> <<>>] /\ nextCk = 1 /\ added = {} /\ bad = {} /\ steps = 0

Tick == steps < MaxSteps /\ steps' = steps + 1
Children(i) == {j \in alive : parent[j] = i}
DirChildren(i) == Children(i) \ files
NoPendingCreate == \A k \in 1..Len(kq) : kq[k].kind # "create"
Rec(wd, kind, n, c, tn) == [wd |-> wd, kind |-> kind, n |-> n, ck |-> c, tn |-> tn]

---------------------------------------------------------------------------
\* inotify.register(path, recurse = true) as a function on the bookkeeping state
\* st = [marks, nextWd, kq, wdT, pathT, err]
Register(st, path) ==
  LET i == Resolve(path) IN
  IF i = 0 THEN [st EXCEPT !.err = "ENOENT"]
  ELSE IF i \in files /\ FIX_ONLYDIR THEN [st EXCEPT !.err = "ENOTDIR"]        \* benign, like ENOENT
  ELSE
  LET have  == {r.wd : r \in {r \in st.pathT : r.path = path}}
      ok    == have # {}
      oldwd == IF ok THEN CHOOSE w \in have : TRUE ELSE 0
      existing == ok /\ \E r \in st.wdT : r.wd = oldwd
      cur   == WdOfIn(st.marks, i)
      kwd   == IF cur # 0 THEN cur ELSE st.nextWd
      marks1 == IF cur # 0 THEN st.marks ELSE st.marks \cup {[wd |-> kwd, ino |-> i]}
      release == existing /\ oldwd # kwd                                 \* the path names another file now: inotify_rm_watch(old)
      marks2 == IF release THEN {m \in marks1 : m.wd # oldwd} ELSE marks1
      kq2    == IF release /\ \E m \in marks1 : m.wd = oldwd THEN Append(st.kq, Rec(oldwd, "ignored", "", 0, <<>>)) ELSE st.kq
      known  == \E r \in st.wdT : r.wd = kwd
      updPath == IF known THEN (CHOOSE r \in st.wdT : r.wd = kwd).path ELSE path
      wd1 == {r \in st.wdT : r.wd # kwd} \cup {[wd |-> kwd, path |-> updPath]}
      wd2 == IF ok /\ oldwd # kwd THEN {r \in wd1 : r.wd # oldwd} ELSE wd1
      pt1 == {r \in st.pathT : r.path # updPath} \cup {[path |-> updPath, wd |-> kwd]}
      pt2 == IF ok /\ oldwd # kwd /\ updPath # path THEN {r \in pt1 : r.path # path} ELSE pt1
  IN [st EXCEPT !.marks = marks2, !.nextWd = IF cur # 0 THEN @ ELSE @ + 1, !.kq = kq2, !.wdT = wd2, !.pathT = pt2]

St == [marks |-> marks, nextWd |-> nextWd, kq |-> kq, wdT |-> wdT, pathT |-> pathT, err |-> ""]
Commit(st) == /\ marks' = st.marks /\ nextWd' = st.nextWd /\ kq' = st.kq /\ wdT' = st.wdT /\ pathT' = st.pathT

\* Add(root + "/..."): WalkDir registers every directory of the tree (parents before children)
RECURSIVE Walk(_, _)
Walk(st, todo) == IF todo = <<>> THEN st ELSE Walk(Register(st, TruePath(Head(todo))), Tail(todo) \o SetToSeq(DirChildren(Head(todo))))
AddRec(r) == /\ Tick /\ r \in Roots \ added
             /\ Commit(Walk(St, <<r>>)) /\ added' = added \cup {r}
             /\ UNCHANGED <<parent, nm, alive, nextIno, files, ck, nextCk, bad>>

\* Remove(root + "/..."): removePath + inotify_rm_watch of everything it returned
RemoveRec(r) ==
  /\ Tick /\ r \in added
  /\ LET path == <<nm[r]>>
         have == {x.wd : x \in {x \in pathT : x.path = path}} IN
     IF have = {} THEN bad' = bad \cup {"remove_failed"} /\ UNCHANGED <<marks, kq, wdT, pathT>>
     ELSE LET wd == CHOOSE w \in have : TRUE
              desc == {x \in pathT : IF FIX_BOUNDARY THEN PrefixSlash(x.path, path) ELSE PrefixRaw(x.path, path) /\ x.path # path}
              wds == {wd} \cup {x.wd : x \in desc} IN
          /\ pathT' = {x \in pathT : x.path # path /\ x \notin desc}
          /\ wdT' = {x \in wdT : x.wd \notin wds}
          \* inotify_rm_watch one by one (in map order: any order); for a descriptor whose mark is gone already (directory
          \* deleted, IN_IGNORED still queued) it fails with EINVAL - before D11 the loop stopped there
          /\ LET gone == {x \in wds : \A m \in marks : m.wd # x} IN
             \E done \in SUBSET wds :
                /\ (FIX_RMALL \/ gone = {}) => done = wds
                /\ (~FIX_RMALL /\ gone # {}) => (gone \cap done = {} /\ done # wds)     \* stopped at the first failure: some were released, the rest not
                /\ marks' = {m \in marks : m.wd \notin done}
                /\ kq' = kq \o SetToSeq({Rec(m.wd, "ignored", "", 0, <<>>) : m \in {m \in marks : m.wd \in done}})
          /\ bad' = bad
  /\ added' = added \ {r}
  /\ UNCHANGED <<parent, nm, alive, nextIno, files, nextWd, ck, nextCk>>

---------------------------------------------------------------------------
\* The file system (records carry, as a ghost, the true name of the object when the operation was made)
Mkdir(p, n) ==
  /\ Tick /\ NoPendingCreate /\ nextIno <= MaxIno /\ p \in alive \ files /\ n \in Comp /\ \A j \in Children(p) : nm[j] # n
  /\ parent' = [parent EXCEPT ![nextIno] = p] /\ nm' = [nm EXCEPT ![nextIno] = n]
  /\ alive' = alive \cup {nextIno} /\ nextIno' = nextIno + 1
  /\ kq' = IF WdOfIn(marks, p) # 0 THEN Append(kq, Rec(WdOfIn(marks, p), "create", n, 0, Append(TruePath(p), n))) ELSE kq
  /\ UNCHANGED <<files, marks, nextWd, wdT, pathT, ck, nextCk, added, bad>>

\* touch: a regular file under a free name of a directory (a record without IN_ISDIR: the reader does not register it)
Touch(p, n) ==
  /\ Tick /\ (NoPendingCreate \/ REUSE_EARLY) /\ nextIno <= MaxIno /\ p \in alive \ files /\ n \in Comp /\ \A j \in Children(p) : nm[j] # n
  /\ parent' = [parent EXCEPT ![nextIno] = p] /\ nm' = [nm EXCEPT ![nextIno] = n]
  /\ alive' = alive \cup {nextIno} /\ files' = files \cup {nextIno} /\ nextIno' = nextIno + 1
  /\ kq' = IF WdOfIn(marks, p) # 0 THEN Append(kq, Rec(WdOfIn(marks, p), "createfile", n, 0, Append(TruePath(p), n))) ELSE kq
  /\ UNCHANGED <<marks, nextWd, wdT, pathT, ck, nextCk, added, bad>>

Rmdir(i) ==
  /\ Tick /\ (NoPendingCreate \/ REUSE_EARLY) /\ i \in alive \ (Roots \cup files) /\ Children(i) = {}
  /\ alive' = alive \ {i}
  /\ LET p == parent[i]
         k1 == IF WdOfIn(marks, p) # 0 THEN Append(kq, Rec(WdOfIn(marks, p), "delete", nm[i], 0, TruePath(i))) ELSE kq
         k2 == IF WdOfIn(marks, i) # 0 THEN k1 \o <<Rec(WdOfIn(marks, i), "delself", "", 0, TruePath(i)), Rec(WdOfIn(marks, i), "ignored", "", 0, <<>>)>> ELSE k1
     IN kq' = k2 /\ marks' = {m \in marks : m.ino # i}
  /\ UNCHANGED <<parent, nm, nextIno, files, nextWd, wdT, pathT, ck, nextCk, added, bad>>

\* mv inside one tree: onto a free name of a directory that is not below the moved one
Rename(i, np, n) ==
  /\ Tick /\ NoPendingCreate /\ i \in alive \ (Roots \cup files) /\ np \in alive \ files /\ ~Under(np, i) /\ RootOf(np) = RootOf(i)
  /\ n \in Comp /\ \A j \in Children(np) : nm[j] # n
  /\ parent' = [parent EXCEPT ![i] = np] /\ nm' = [nm EXCEPT ![i] = n]
  /\ LET op == parent[i]
         k1 == IF WdOfIn(marks, op) # 0 THEN Append(kq, Rec(WdOfIn(marks, op), "movedfrom", nm[i], nextCk, TruePath(i))) ELSE kq
         k2 == IF WdOfIn(marks, np) # 0 THEN Append(k1, Rec(WdOfIn(marks, np), "movedto", n, nextCk, Append(TruePath(np), n))) ELSE k1
         k3 == IF WdOfIn(marks, i) # 0 THEN Append(k2, Rec(WdOfIn(marks, i), "moveself", "", 0, <<>>)) ELSE k2
     IN kq' = k3
  /\ nextCk' = nextCk + 1
  /\ UNCHANGED <<alive, nextIno, files, marks, nextWd, wdT, pathT, ck, added, bad>>

\* rename(2) of a directory OVER an empty directory of the same tree: the victim's inode goes (after the move records)
RenameOver(i, j) ==
  /\ Tick /\ NoPendingCreate /\ i \in alive \ (Roots \cup files) /\ j \in alive \ (Roots \cup files) /\ i # j /\ Children(j) = {}
  /\ ~Under(j, i) /\ ~Under(i, j) /\ RootOf(j) = RootOf(i)
  /\ parent' = [parent EXCEPT ![i] = parent[j]] /\ nm' = [nm EXCEPT ![i] = nm[j]]
  /\ alive' = alive \ {j}
  /\ LET op == parent[i]  np == parent[j]
         k1 == IF WdOfIn(marks, op) # 0 THEN Append(kq, Rec(WdOfIn(marks, op), "movedfrom", nm[i], nextCk, TruePath(i))) ELSE kq
         k2 == IF WdOfIn(marks, np) # 0 THEN Append(k1, Rec(WdOfIn(marks, np), "movedto", nm[j], nextCk, TruePath(j))) ELSE k1
         k3 == IF WdOfIn(marks, i) # 0 THEN Append(k2, Rec(WdOfIn(marks, i), "moveself", "", 0, <<>>)) ELSE k2
         k4 == IF WdOfIn(marks, j) # 0 THEN k3 \o <<Rec(WdOfIn(marks, j), "delself", "", 0, TruePath(j)), Rec(WdOfIn(marks, j), "ignored", "", 0, <<>>)>> ELSE k3
     IN kq' = k4 /\ marks' = {m \in marks : m.ino # j}
  /\ nextCk' = nextCk + 1
  /\ UNCHANGED <<nextIno, files, nextWd, wdT, pathT, ck, added, bad>>

---------------------------------------------------------------------------
\* Reader: handleEvent for one record (all watches of this model are recursive)
Handle ==
  /\ kq # <<>>
  /\ LET r == Head(kq)
         rows == {x \in wdT : x.wd = r.wd} IN
     IF rows = {} THEN kq' = Tail(kq) /\ UNCHANGED <<marks, nextWd, wdT, pathT, ck, bad>>                 \* watch == nil
     ELSE
     LET watch == CHOOSE x \in rows : TRUE
         name  == IF r.n = "" THEN watch.path ELSE Append(watch.path, r.n)
         \* w.watches.remove(watch): delete(w.path, watch.path) - before D13 even if that key belongs to another watch by now
         DropWatch(w, p) == [w |-> {x \in w : x.wd # watch.wd},
                             p |-> {x \in p : ~(x.path = watch.path /\ (x.wd = watch.wd \/ ~FIX_PATHKEY))}]
     IN
     CASE r.kind = "ignored" ->
            /\ wdT' = DropWatch(wdT, pathT).w /\ pathT' = DropWatch(wdT, pathT).p /\ kq' = Tail(kq)
            /\ UNCHANGED <<marks, nextWd, ck, bad>>
       [] r.kind = "moveself" -> kq' = Tail(kq) /\ UNCHANGED <<marks, nextWd, wdT, pathT, ck, bad>>      \* recursive: do nothing
       [] r.kind = "delself" ->
            /\ wdT' = DropWatch(wdT, pathT).w /\ pathT' = DropWatch(wdT, pathT).p /\ kq' = Tail(kq)
            \* reported unless the parent is watched too (which already reports it); the name is the table's
            /\ bad' = IF (\E x \in pathT : x.path = SubSeq(watch.path, 1, Len(watch.path) - 1)) \/ name = r.tn THEN bad ELSE bad \cup {"wrong_name"}
            /\ UNCHANGED <<marks, nextWd, ck>>
       [] r.kind \in {"delete", "movedfrom", "createfile"} ->
            /\ bad' = IF name = r.tn THEN bad ELSE bad \cup {"wrong_name"}
            /\ ck' = IF r.kind = "movedfrom" THEN (r.ck :> name) @@ ck ELSE ck
            /\ kq' = Tail(kq) /\ UNCHANGED <<marks, nextWd, wdT, pathT>>
       [] r.kind \in {"create", "movedto"} ->
            LET from == IF r.kind = "movedto" /\ r.ck \in DOMAIN ck THEN ck[r.ck] ELSE <<>>
                st0  == [St EXCEPT !.kq = Tail(kq)]
                \* D10: the kernel watch follows the inode; looking the new name up again may find ANOTHER directory by now
                inTree == FIX_MOVED /\ from # <<>> /\ \E x \in pathT : x.path = from
                st1  == IF inTree THEN st0 ELSE Register(st0, name)
                \* a directory rename: rewrite the rows of the moved directory and of everything below it
                Hit(x) == x.wd # watch.wd /\ x.path # name
                          /\ (x.path = from \/ IF FIX_BOUNDARY THEN PrefixSlash(x.path, from) ELSE PrefixRaw(x.path, from))
                moved == IF from = <<>> THEN {} ELSE {x \in st1.wdT : Hit(x)}
                wd2 == (st1.wdT \ moved) \cup {[wd |-> x.wd, path |-> Rewrite(x.path, from, name)] : x \in moved}
                pt2 == IF FIX_REKEY
                       THEN {x \in st1.pathT : \A m \in moved : x.path # m.path} \cup {[path |-> Rewrite(x.path, from, name), wd |-> x.wd] : x \in moved}
                       ELSE st1.pathT
            IN /\ Commit([st1 EXCEPT !.wdT = wd2, !.pathT = pt2])
               /\ bad' = (IF name = r.tn THEN bad ELSE bad \cup {"wrong_name"})
                         \cup (IF st1.err = "ENOENT" /\ ~FIX_ENOENT THEN {"spurious_error"} ELSE {})
               /\ ck' = ck
  /\ UNCHANGED <<parent, nm, alive, nextIno, files, nextCk, added, steps>>

Next == (\E r \in Roots : AddRec(r) \/ RemoveRec(r))
        \/ (\E p \in 1..MaxIno, n \in Comp : Mkdir(p, n))
        \/ (\E p \in 1..MaxIno, n \in Comp : Touch(p, n))
        \/ (\E i \in 1..MaxIno : Rmdir(i))
        \/ (\E i, np \in 1..MaxIno, n \in Comp : Rename(i, np, n))
        \/ (\E i, j \in 1..MaxIno : RenameOver(i, j))
        \/ Handle
Spec == Init /\ [][Next]_vars

---------------------------------------------------------------------------
Quiet == kq = <<>>
\* C19: events carry the true path the entry had when the operation was made
TrueNames == "wrong_name" \notin bad
\* D8: nothing is put on Errors by these histories
NoSpuriousError == "spurious_error" \notin bad
\* Remove of a watched root finds it
RemoveWorks == "remove_failed" \notin bad
\* C19: with the queue drained every directory of a watched tree is marked and listed under its true current path ...
Covered == Quiet => \A i \in alive \ files : RootOf(i) \in added =>
                      /\ WdOfIn(marks, i) # 0
                      /\ \E x \in wdT : x.wd = WdOfIn(marks, i) /\ x.path = TruePath(i)
                      /\ \E x \in pathT : x.wd = WdOfIn(marks, i) /\ x.path = TruePath(i)
\* ... and nothing else is: no mark outside the watched trees, no row without a mark, one row per watch
OwnTreeOnly == Quiet => /\ \A m \in marks : m.ino \in alive \ files /\ RootOf(m.ino) \in added
                        /\ {x.wd : x \in wdT} = {m.wd : m \in marks}
                        /\ Cardinality(wdT) = Cardinality(marks) /\ Cardinality(pathT) = Cardinality(marks)
=============================================================================

SPECIFICATION Spec
CONSTANTS
  MaxSteps = 6
  MaxIno = 4
  FIX_REPOINT = TRUE
  OPS = TRUE
  MASK_ADD = TRUE
  MAXQ = 0
  ALIAS_OPS = TRUE
INVARIANTS NoPanic TablesAgree MarksBacked ListOK MaskOK
CHECK_DEADLOCK FALSE

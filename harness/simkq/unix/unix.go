// Package unix is a drop-in for the part of golang.org/x/sys/unix that
// backend_kqueue.go uses, backed by a simulated kqueue: real descriptors on a
// real directory tree (so that os.ReadDir / os.Lstat in the backend see the
// truth), knotes attached to (kq, fd) pairs, NOTE_* raised on the vnodes
// affected by the file system operations the driver performs through Sim*
// functions, as FreeBSD's vop_*_post hooks do.  The rules are specified in
// spec/KqKernel.tla and compared with it on every trace.
package unix

import (
	"sort"
	"sync"
	"syscall"
)

type Kevent_t struct {
	Ident  uint64
	Filter int16
	Flags  uint16
	Fflags uint32
	Data   int64
	Udata  *byte
}

type Timespec = syscall.Timespec
type Errno = syscall.Errno

const (
	EINTR  = syscall.EINTR
	EACCES = syscall.EACCES
	EPERM  = syscall.EPERM
	EBADF  = syscall.EBADF
	ENOENT = syscall.ENOENT
	EINVAL = syscall.EINVAL

	O_NONBLOCK = syscall.O_NONBLOCK
	O_RDONLY   = syscall.O_RDONLY
	O_CLOEXEC  = syscall.O_CLOEXEC

	EVFILT_READ  = -0x1
	EVFILT_VNODE = -0x4

	EV_ADD     = 0x1
	EV_DELETE  = 0x2
	EV_ENABLE  = 0x4
	EV_ONESHOT = 0x10
	EV_CLEAR   = 0x20
	EV_ERROR   = 0x4000
	EV_EOF     = 0x8000

	NOTE_DELETE = 0x1
	NOTE_WRITE  = 0x2
	NOTE_EXTEND = 0x4
	NOTE_ATTRIB = 0x8
	NOTE_LINK   = 0x10
	NOTE_RENAME = 0x20
	NOTE_REVOKE = 0x40
)

type vnode struct{ dev, ino uint64 }

type fdinfo struct {
	kind string // file | kq | piper | pipew
	vn   vnode
	path string
	peer int // for pipes
	ser  int // serial number of this open (descriptor numbers are reused, serials are not)
}

type knote struct {
	ident   int
	filter  int16
	flags   uint16
	sfflags uint32 // subscribed
	fflags  uint32 // accumulated since last retrieval
	active  bool
	eof     bool
}

type kqueue struct {
	notes  map[[2]int]*knote
	activeQ []*knote
	closed bool
}

var (
	mu   sync.Mutex
	cond = sync.NewCond(&mu)
	fds  = map[int]*fdinfo{}
	kqs  = map[int]*kqueue{}
	// statistics / fault injection for the driver
	Opens, Closes int
	FailOpen      map[string]Errno // path -> errno to return from Open
)

func SetKevent(k *Kevent_t, fd, mode, flags int) {
	k.Ident = uint64(fd)
	k.Filter = int16(mode)
	k.Flags = uint16(flags)
}

func CloseOnExec(fd int) { syscall.CloseOnExec(fd) }

func Kqueue() (int, error) {
	fd, err := syscall.Open("/dev/null", syscall.O_RDONLY|syscall.O_CLOEXEC, 0)
	if err != nil {
		return -1, err
	}
	mu.Lock()
	defer mu.Unlock()
	fds[fd] = &fdinfo{kind: "kq"}
	kqs[fd] = &kqueue{notes: map[[2]int]*knote{}}
	Opens++
	return fd, nil
}

func Pipe(p []int) error {
	var pp [2]int
	if err := syscall.Pipe2(pp[:], syscall.O_CLOEXEC); err != nil {
		return err
	}
	p[0], p[1] = pp[0], pp[1]
	mu.Lock()
	defer mu.Unlock()
	fds[pp[0]] = &fdinfo{kind: "piper", peer: pp[1]}
	fds[pp[1]] = &fdinfo{kind: "pipew", peer: pp[0]}
	Opens += 2
	return nil
}

// SimUnprivileged makes Open behave as for an unprivileged owner: a file without the owner-read bit cannot be opened
// (the checks run as root, for whom every open succeeds).
func SimUnprivileged(on bool) {
	mu.Lock()
	unpriv = on
	mu.Unlock()
}

var unpriv bool

func Open(path string, mode int, perm uint32) (int, error) {
	mu.Lock()
	if e, ok := FailOpen[path]; ok {
		mu.Unlock()
		return -1, e
	}
	up := unpriv
	mu.Unlock()
	if up {
		var st syscall.Stat_t
		if syscall.Stat(path, &st) == nil && st.Mode&0o400 == 0 {
			return -1, EACCES
		}
	}
	fd, err := syscall.Open(path, mode, perm)
	if err != nil {
		return -1, err
	}
	var st syscall.Stat_t
	if err := syscall.Fstat(fd, &st); err != nil {
		syscall.Close(fd)
		return -1, err
	}
	mu.Lock()
	defer mu.Unlock()
	Opens++
	fds[fd] = &fdinfo{kind: "file", vn: vnode{uint64(st.Dev), st.Ino}, path: path, ser: Opens}
	return fd, nil
}

func Close(fd int) error {
	mu.Lock()
	fi, ok := fds[fd]
	if !ok {
		mu.Unlock()
		return EBADF
	}
	delete(fds, fd)
	Closes++
	// knotes die with their descriptor
	for _, kq := range kqs {
		for key, kn := range kq.notes {
			if kn.ident == fd {
				delete(kq.notes, key)
				kq.dequeue(kn)
			}
		}
	}
	switch fi.kind {
	case "kq":
		if kq := kqs[fd]; kq != nil {
			kq.closed = true
		}
		delete(kqs, fd)
	case "pipew":
		// EOF on the read end
		for _, kq := range kqs {
			if kn, ok := kq.notes[[2]int{fi.peer, EVFILT_READ}]; ok {
				kn.eof = true
				kq.activate(kn)
			}
		}
	}
	cond.Broadcast()
	mu.Unlock()
	return syscall.Close(fd)
}

func (kq *kqueue) activate(kn *knote) {
	if !kn.active {
		kn.active = true
		kq.activeQ = append(kq.activeQ, kn)
	}
}

func (kq *kqueue) dequeue(kn *knote) {
	for i, x := range kq.activeQ {
		if x == kn {
			kq.activeQ = append(kq.activeQ[:i], kq.activeQ[i+1:]...)
			break
		}
	}
	kn.active = false
}

// Kevent applies the changes and, if events is non-empty, blocks until at least one knote is active.
func Kevent(kqfd int, changes, events []Kevent_t, timeout *Timespec) (int, error) {
	mu.Lock()
	defer mu.Unlock()
	kq := kqs[kqfd]
	if kq == nil {
		return -1, EBADF
	}
	for _, c := range changes {
		key := [2]int{int(c.Ident), int(c.Filter)}
		if _, ok := fds[int(c.Ident)]; !ok {
			return -1, EBADF
		}
		switch {
		case c.Flags&EV_DELETE != 0:
			kn, ok := kq.notes[key]
			if !ok {
				return -1, ENOENT
			}
			delete(kq.notes, key)
			kq.dequeue(kn)
		case c.Flags&EV_ADD != 0:
			kn, ok := kq.notes[key]
			if !ok && c.Filter == EVFILT_VNODE && failAdd > 0 {
				if failAdd--; failAdd == 0 {
					return -1, syscall.ENOMEM // the injected fault: no memory for a new knote
				}
			}
			if !ok {
				kn = &knote{ident: int(c.Ident), filter: c.Filter}
				kq.notes[key] = kn
			}
			kn.flags = c.Flags
			kn.sfflags = c.Fflags
			if c.Filter == EVFILT_READ {
				// already at EOF?
				if fi := fds[int(c.Ident)]; fi != nil && fi.kind == "piper" {
					if _, open := fds[fi.peer]; !open {
						kn.eof = true
						kq.activate(kn)
					}
				}
			}
		}
	}
	if len(events) == 0 {
		return 0, nil
	}
	for len(kq.activeQ) == 0 || held {
		if kq.closed {
			return -1, EBADF
		}
		cond.Wait()
		if kqs[kqfd] != kq {
			return -1, EBADF
		}
	}
	n := 0
	for n < len(events) && len(kq.activeQ) > 0 {
		kn := kq.activeQ[0]
		kq.activeQ = kq.activeQ[1:]
		kn.active = false
		ev := Kevent_t{Ident: uint64(kn.ident), Filter: kn.filter, Flags: kn.flags, Fflags: kn.fflags}
		if kn.eof {
			ev.Flags |= EV_EOF
		}
		events[n] = ev
		n++
		if kn.flags&EV_CLEAR != 0 {
			kn.fflags = 0
		}
		if kn.flags&EV_ONESHOT != 0 {
			delete(kq.notes, [2]int{kn.ident, int(kn.filter)})
		}
	}
	Retrievals = append(Retrievals, n)
	return n, nil
}

// SimFailAdd makes the n-th registration of a new vnode knote from now on fail with ENOMEM (once).
var failAdd int

func SimFailAdd(n int) {
	mu.Lock()
	failAdd = n
	mu.Unlock()
}

// SimFailLeft: 0 once the injected failure has happened (or none is armed).
func SimFailLeft() int {
	mu.Lock()
	defer mu.Unlock()
	return failAdd
}

// SimHold / SimRelease bracket the notes of ONE file system operation: the kernel raises them inside the
// system call, so a reader cannot run between them.
var (
	held  bool
	holds int // SimHold nests: a whole burst of operations can be made "faster than the reader wakes up"
)

func SimHold() {
	mu.Lock()
	holds++
	held = true
	mu.Unlock()
}

func SimRelease() {
	mu.Lock()
	if holds > 0 {
		holds--
	}
	if holds == 0 {
		held = false
		cond.Broadcast()
	}
	mu.Unlock()
}

// SimHoldReset drops every hold (end of a scenario).
func SimHoldReset() {
	mu.Lock()
	holds, held = 0, false
	cond.Broadcast()
	mu.Unlock()
}

// Retrievals records how many kevents each blocking Kevent call returned (batching evidence).
var Retrievals []int

// ---------------------------------------------------------------- driver side

// notify raises note on every knote attached to a descriptor of vnode v.
func notify(v vnode, note uint32) []SimNote {
	var out []SimNote
	// deterministic order: by kq, then by descriptor number
	kqids := make([]int, 0, len(kqs))
	for id := range kqs {
		kqids = append(kqids, id)
	}
	sort.Ints(kqids)
	for _, id := range kqids {
		kq := kqs[id]
		var idents []int
		for _, kn := range kq.notes {
			if kn.filter == EVFILT_VNODE {
				idents = append(idents, kn.ident)
			}
		}
		sort.Ints(idents)
		for _, ident := range idents {
			kn := kq.notes[[2]int{ident, EVFILT_VNODE}]
			fi := fds[ident]
			if fi == nil || fi.kind != "file" || fi.vn != v {
				continue
			}
			hit := note & kn.sfflags
			if hit == 0 {
				continue
			}
			kn.fflags |= hit
			kq.activate(kn)
			out = append(out, SimNote{Kq: id, Fd: ident, Note: hit, Serial: fi.ser})
		}
	}
	if len(out) > 0 {
		cond.Broadcast()
	}
	return out
}

// SimNote is one activation, reported to the driver for the trace.
type SimNote struct {
	Kq   int    `json:"kq"`
	Fd   int    `json:"fd"`
	Note uint32 `json:"note"`
	// Serial identifies the open the knote hangs on: a note on a descriptor that is closed before the reader
	// retrieves it is never delivered, and the descriptor number may be in use again by then.
	Serial int `json:"serial"`
}

func vnodeOf(path string, follow bool) (vnode, bool) {
	var st syscall.Stat_t
	var err error
	if follow {
		err = syscall.Stat(path, &st)
	} else {
		err = syscall.Lstat(path, &st)
	}
	if err != nil {
		return vnode{}, false
	}
	return vnode{uint64(st.Dev), st.Ino}, true
}

// SimRaise raises note on the vnode currently named by path (after the driver performed an operation).
func SimRaise(v SimVnode, note uint32) []SimNote {
	mu.Lock()
	defer mu.Unlock()
	return notify(vnode(v), note)
}

type SimVnode vnode

func SimVnodeOf(path string, follow bool) (SimVnode, bool) {
	v, ok := vnodeOf(path, follow)
	return SimVnode(v), ok
}

// SimOpen lists the descriptors currently open through this package.
type SimFd struct {
	Fd   int    `json:"fd"`
	Kind string `json:"kind"`
	Path string `json:"path"`
	Ser  int    `json:"serial"`
}

func SimOpenFds() []SimFd {
	mu.Lock()
	defer mu.Unlock()
	out := make([]SimFd, 0, len(fds))
	for fd, fi := range fds {
		out = append(out, SimFd{fd, fi.kind, fi.path, fi.ser})
	}
	sort.Slice(out, func(i, j int) bool { return out[i].Fd < out[j].Fd })
	return out
}

// SimPending reports whether any kqueue has an active knote that has not been retrieved.
func SimPending() int {
	mu.Lock()
	defer mu.Unlock()
	if held {
		return 0
	}
	n := 0
	for _, kq := range kqs {
		n += len(kq.activeQ)
	}
	return n
}

// SimKnotes lists (fd, subscribed flags) of the vnode knotes of kq.
func SimKnotes(kqfd int) [][2]int {
	mu.Lock()
	defer mu.Unlock()
	kq := kqs[kqfd]
	out := [][2]int{}
	if kq == nil {
		return out
	}
	for _, kn := range kq.notes {
		if kn.filter == EVFILT_VNODE {
			out = append(out, [2]int{kn.ident, int(kn.sfflags)})
		}
	}
	sort.Slice(out, func(i, j int) bool { return out[i][0] < out[j][0] })
	return out
}

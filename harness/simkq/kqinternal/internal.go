// Package kqinternal stands in for github.com/fsnotify/fsnotify/internal when the
// kqueue backend is compiled on Linux against the simulated kqueue.
package kqinternal

import "verif/harness/simkq/unix"

func Debug(name string, kevent *unix.Kevent_t) {}

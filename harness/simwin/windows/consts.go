// Package windows holds the handful of Windows API constants used by the
// translation tables of backend_windows.go (values as in golang.org/x/sys/windows).
package windows

const (
	FILE_ACTION_ADDED            = 0x1
	FILE_ACTION_REMOVED          = 0x2
	FILE_ACTION_MODIFIED         = 0x3
	FILE_ACTION_RENAMED_OLD_NAME = 0x4
	FILE_ACTION_RENAMED_NEW_NAME = 0x5

	FILE_NOTIFY_CHANGE_FILE_NAME  = 0x001
	FILE_NOTIFY_CHANGE_DIR_NAME   = 0x002
	FILE_NOTIFY_CHANGE_ATTRIBUTES = 0x004
	FILE_NOTIFY_CHANGE_SIZE       = 0x008
	FILE_NOTIFY_CHANGE_LAST_WRITE = 0x010
	FILE_NOTIFY_CHANGE_CREATION   = 0x040
)

module verif/harness

go 1.21

require github.com/fsnotify/fsnotify v0.0.0

require golang.org/x/sys v0.13.0 // indirect

replace github.com/fsnotify/fsnotify => /repo

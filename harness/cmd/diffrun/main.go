// diffrun evaluates ztest.Diff / ztest.DiffMatch (copied from the working
// tree by cmd/extract) on an enumerated input space and records inputs and
// parsed outputs for validation against spec/Diff.tla.  No expected values.
package main

import (
	"encoding/json"
	"flag"
	"fmt"
	"math/rand"
	"os"
	"strconv"
	"strings"
	"time"

	"verif/harness/zz_gen/CUR/zt"
)

type J = map[string]interface{}

type hunk struct {
	Hdr  [4]int      `json:"hdr"`
	Body [][2]string `json:"body"`
}

func parseRange(s string) (int, int, bool) {
	parts := strings.SplitN(s, ",", 2)
	a, err := strconv.Atoi(parts[0])
	if err != nil {
		return 0, 0, false
	}
	if len(parts) == 1 {
		return a, 1, true
	}
	b, err := strconv.Atoi(parts[1])
	if err != nil {
		return 0, 0, false
	}
	return a, b, true
}

// parse splits the output of Diff into hunks; ok=false if it is not of the documented shape.
func parse(out string) (hunks []hunk, ok bool) {
	hunks = []hunk{}
	if out == "" {
		return hunks, true
	}
	if !strings.HasPrefix(out, "\n--- have\n+++ want\n") || !strings.HasSuffix(out, "\n") {
		return hunks, false
	}
	body := strings.TrimPrefix(out, "\n--- have\n+++ want\n")
	lines := strings.Split(strings.TrimSuffix(body, "\n"), "\n")
	var cur *hunk
	for _, ln := range lines {
		switch {
		case strings.HasPrefix(ln, "@@ -") && strings.HasSuffix(ln, " @@"):
			f := strings.Fields(ln)
			if len(f) != 4 {
				return hunks, false
			}
			s1, l1, ok1 := parseRange(strings.TrimPrefix(f[1], "-"))
			s2, l2, ok2 := parseRange(strings.TrimPrefix(f[2], "+"))
			if !ok1 || !ok2 {
				return hunks, false
			}
			hunks = append(hunks, hunk{Hdr: [4]int{s1, l1, s2, l2}, Body: [][2]string{}})
			cur = &hunks[len(hunks)-1]
		case cur == nil:
			return hunks, false
		case strings.HasPrefix(ln, "      "):
			cur.Body = append(cur.Body, [2]string{" ", ln[6:]})
		case strings.HasPrefix(ln, "-have "):
			cur.Body = append(cur.Body, [2]string{"-", ln[6:]})
		case strings.HasPrefix(ln, "+want "):
			cur.Body = append(cur.Body, [2]string{"+", ln[6:]})
		default:
			return hunks, false
		}
	}
	return hunks, true
}

func seqs(alpha []string, maxLen int) [][]string {
	out := [][]string{{}}
	prev := [][]string{{}}
	for l := 1; l <= maxLen; l++ {
		var next [][]string
		for _, p := range prev {
			for _, a := range alpha {
				q := append(append([]string{}, p...), a)
				next = append(next, q)
			}
		}
		out = append(out, next...)
		prev = next
	}
	return out
}

func safe(f func() string) (s string, panicked bool) {
	defer func() {
		if r := recover(); r != nil {
			s, panicked = fmt.Sprint(r), true
		}
	}()
	return f(), false
}

func main() {
	out := flag.String("out", "", "output file")
	maxLen := flag.Int("len", 4, "maximal number of lines (alphabet a,b,c)")
	nrand := flag.Int("rand", 500, "random long inputs")
	seed := flag.Int64("seed", 1, "seed")
	plen := flag.Int("plen", 2, "maximal pattern length for DiffMatch")
	flag.Parse()
	f, err := os.Create(*out)
	if err != nil {
		fmt.Fprintln(os.Stderr, err)
		os.Exit(2)
	}
	defer f.Close()
	enc := json.NewEncoder(f)
	enc.SetEscapeHTML(false)

	emit := func(kind string, a, b []string, ta, tb string) {
		o, p := safe(func() string { return zt.Diff(ta, tb) })
		h, ok := parse(o)
		if p {
			ok = false
		}
		enc.Encode(J{"k": kind, "a": a, "b": b, "empty": o == "" && !p, "hunks": h, "wellformed": ok})
	}
	// ---- exhaustive: all pairs of line sequences over {a,b,c} up to maxLen lines
	all := seqs([]string{"a", "b", "c"}, *maxLen)
	for _, a := range all {
		for _, b := range all {
			emit("diff", a, b, strings.Join(a, "\n"), strings.Join(b, "\n"))
		}
	}
	// ---- random long inputs: many repeated lines, empty lines, missing final newline, surrounding white space
	rnd := rand.New(rand.NewSource(*seed))
	alpha := []string{"a", "b", "c", "d", "", "x y", "a"}
	for i := 0; i < *nrand; i++ {
		n := 5 + rnd.Intn(40)
		a := make([]string, n)
		for j := range a {
			a[j] = alpha[rnd.Intn(len(alpha))]
		}
		// b: a with random edits
		b := append([]string{}, a...)
		for e := rnd.Intn(6); e > 0 && len(b) > 0; e-- {
			p := rnd.Intn(len(b))
			switch rnd.Intn(3) {
			case 0:
				b = append(b[:p], b[p+1:]...)
			case 1:
				b = append(b[:p], append([]string{alpha[rnd.Intn(len(alpha))]}, b[p:]...)...)
			default:
				b[p] = alpha[rnd.Intn(len(alpha))]
			}
		}
		ta, tb := strings.Join(a, "\n"), strings.Join(b, "\n")
		pre := []string{"", "\n", "  ", "\n\n \t"}[rnd.Intn(4)]
		post := []string{"", "\n", " \n", "\n\n"}[rnd.Intn(4)]
		ta, tb = pre+ta+post, []string{"", " ", "\n"}[rnd.Intn(3)]+tb+[]string{"", "\n", "\t\n"}[rnd.Intn(3)]
		// what Diff sees after trimming: an observation of the input, computed with the standard library
		la := strings.Split(strings.TrimSpace(ta), "\n")
		lb := strings.Split(strings.TrimSpace(tb), "\n")
		emit("diff", la, lb, ta, tb)
	}
	// ---- DiffMatch: patterns over literals and placeholders, texts over {a, 1, newline}
	now := time.Now().UTC()
	toks := []string{"a", "1", "\n", "%(ANY)", "%(ANY 2)", "%(ANY 1,2)", "%(ANY 2,)", "%(NUMBER)", "%(NUMBER 2)"}
	pats := seqs(toks, *plen)[1:]
	texts := seqs([]string{"a", "1", "\n"}, 5)
	for _, p := range pats {
		want := strings.Join(p, "")
		for _, t := range texts {
			have := strings.Join(t, "")
			o, pn := safe(func() string { return zt.DiffMatch(have, want) })
			enc.Encode(J{"k": "match", "pat": p, "text": t, "empty": o == "" && !pn})
		}
	}
	dates := [][]string{{"%(YEAR)"}, {"%(YEAR)", "-", "%(MONTH)", "-", "%(DAY)"}, {"a", "%(DAY)"}, {"%(MONTH)", "%(ANY)"}}
	y, m, d := fmt.Sprintf("%d", now.Year()), fmt.Sprintf("%02d", int(now.Month())), fmt.Sprintf("%02d", now.Day())
	dtexts := []string{y, y + "-" + m + "-" + d, "a" + d, m + "x", m, "1999", y + "-" + m + "-" + "00", y + "\n", ""}
	for _, p := range dates {
		for _, t := range dtexts {
			o, pn := safe(func() string { return zt.DiffMatch(t, strings.Join(p, "")) })
			chars := strings.Split(t, "")
			if t == "" {
				chars = []string{}
			}
			enc.Encode(J{"k": "match", "pat": p, "text": chars, "empty": o == "" && !pn})
		}
	}
	enc.Encode(J{"k": "meta", "len": *maxLen, "plen": *plen, "year": strings.Split(y, ""), "month": strings.Split(m, ""), "day": strings.Split(d, ""), "nrand": *nrand})
}

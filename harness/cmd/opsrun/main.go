// opsrun evaluates the real translation tables and renderings on their
// complete (bounded) input spaces and writes input/output records for
// validation against spec/Ops.tla by TLC (spec/OpsTrace.tla).  It contains
// no expected values.
package main

import (
	"encoding/json"
	"flag"
	"fmt"
	"math/rand"
	"os"
	"path/filepath"
	"strconv"
	"strings"

	"github.com/fsnotify/fsnotify"
	"verif/harness/zz_gen/CUR/kq"
	"verif/harness/zz_gen/CUR/win"
)

type J = map[string]interface{}

func inoMask(i int) uint32 {
	m := uint32(i & 0xfff)
	if i&0x1000 != 0 {
		m |= 0x8000 // IN_IGNORED
	}
	if i&0x2000 != 0 {
		m |= 0x2000 // IN_UNMOUNT
	}
	if i&0x4000 != 0 {
		m |= 0x4000 // IN_Q_OVERFLOW
	}
	if i&0x8000 != 0 {
		m |= 0x40000000 // IN_ISDIR
	}
	return m
}

func fdinfoMask(fd int) (uint64, int) {
	b, err := os.ReadFile("/proc/self/fdinfo/" + strconv.Itoa(fd))
	if err != nil {
		return 0, -1
	}
	n := 0
	var mask uint64
	for _, ln := range strings.Split(string(b), "\n") {
		if !strings.HasPrefix(ln, "inotify ") {
			continue
		}
		n++
		for _, f := range strings.Fields(ln) {
			if strings.HasPrefix(f, "mask:") {
				mask, _ = strconv.ParseUint(f[5:], 16, 64)
			}
		}
	}
	return mask, n
}

func main() {
	out := flag.String("out", "", "output file")
	seed := flag.Int64("seed", 1, "seed for the sampled part")
	high := flag.Int("high", 4096, "number of sampled Op values above 16 bits")
	flag.Parse()
	f, err := os.Create(*out)
	if err != nil {
		fmt.Fprintln(os.Stderr, err)
		os.Exit(2)
	}
	defer f.Close()
	enc := json.NewEncoder(f)
	enc.SetEscapeHTML(false)

	// ---- C15: inotify mask -> Op, all 2^16 combinations of the inspected bits
	{
		recs := make([][2]uint32, 0, 65536)
		for i := 0; i < 65536; i++ {
			m := inoMask(i)
			e := fsnotify.VerifInotifyNewEvent("n", m, 0)
			recs = append(recs, [2]uint32{m, uint32(e.Op)})
		}
		enc.Encode(J{"k": "ino_ev", "recs": recs})
	}
	// ---- C15: requested ops -> kernel mask (fdinfo of the real mark), all 2^9 subsets
	{
		dir, _ := os.MkdirTemp("", "opsrun-")
		defer os.RemoveAll(dir)
		file := filepath.Join(dir, "f")
		os.WriteFile(file, nil, 0o644)
		w, err := fsnotify.NewWatcher()
		if err != nil {
			fmt.Fprintln(os.Stderr, "NewWatcher:", err)
			os.Exit(2)
		}
		go func() {
			for range w.Events {
			}
		}()
		go func() {
			for range w.Errors {
			}
		}()
		fd := fsnotify.VerifInotifyFd(w)
		recs := []J{}
		for ops := 0; ops < 512; ops++ {
			for _, nofollow := range []bool{false, true} {
				err := fsnotify.VerifAddWith(w, file, fsnotify.Op(ops), true, nofollow, false)
				mask, n := fdinfoMask(fd)
				recs = append(recs, J{"ops": ops, "nofollow": nofollow, "ok": err == nil, "mask": mask, "marks": n,
					"supports": fsnotify.VerifSupports(w, fsnotify.Op(ops))})
				if err == nil {
					w.Remove(file)
				}
			}
		}
		w.Close()
		enc.Encode(J{"k": "ino_req", "recs": recs})
	}
	// ---- C15: kqueue NOTE_* -> Op (all 2^7, then with 4 extra undefined bits), subscription, supports
	{
		recs := make([][2]uint32, 0, 2048)
		for m := uint32(0); m < 2048; m++ {
			e := kq.KqNewEvent("n", "", m)
			recs = append(recs, [2]uint32{m, uint32(e.Op)})
		}
		names := []J{}
		for _, ln := range []string{"", "link"} {
			e := kq.KqNewEvent("target", ln, 2)
			names = append(names, J{"name": "target", "link": ln, "out": e.Name})
		}
		sup := make([]bool, 512)
		for ops := 0; ops < 512; ops++ {
			sup[ops] = kq.KqSupports(kq.Op(ops))
		}
		enc.Encode(J{"k": "kq", "recs": recs, "names": names, "sub": uint32(kq.KqNoteAllEvents), "supports": sup,
			"opbits": []uint32{uint32(kq.Create), uint32(kq.Write), uint32(kq.Remove), uint32(kq.Rename), uint32(kq.Chmod),
				uint32(kq.XOpen), uint32(kq.XRead), uint32(kq.XCloseWrite), uint32(kq.XCloseRead)}})
	}
	// ---- C15: Windows internal mask -> Op (2^12 low masks x IGNORED bit), actions, notify filter, supports
	{
		recs := make([][2]uint32, 0, 8192)
		filt := make([][2]uint32, 0, 8192)
		for i := 0; i < 8192; i++ {
			m := uint32(i & 0xfff)
			if i&0x1000 != 0 {
				m |= 0x8000
			}
			e := win.WinNewEvent("n", m)
			recs = append(recs, [2]uint32{m, uint32(e.Op)})
			filt = append(filt, [2]uint32{m, win.WinToWindowsFlags(uint64(m))})
		}
		acts := make([][2]uint64, 0, 8)
		for a := uint32(0); a < 8; a++ {
			acts = append(acts, [2]uint64{uint64(a), win.WinToFSnotifyFlags(a)})
		}
		sup := make([]bool, 512)
		for ops := 0; ops < 512; ops++ {
			sup[ops] = win.WinSupports(win.Op(ops))
		}
		enc.Encode(J{"k": "win", "recs": recs, "filter": filt, "actions": acts, "all": uint32(win.WinAllEvents), "supports": sup})
	}
	// ---- C16: Has / String over all 2^16 low Op values, sampled high values
	{
		probes := []uint32{0, 1, 2, 4, 8, 16, 32, 64, 128, 256, 3, 5, 6, 9, 10, 12, 17, 18, 20, 24, 31, 33, 48, 96, 192, 384, 511, 480, 496,
			15, 30, 0x200, 0x201, 0x10000, 0x10001, 0xffffffff, 0xfffffe00, 0x155, 0xaa, 0x1ff}
		rnd := rand.New(rand.NewSource(*seed))
		vals := make([]uint32, 0, 65536+*high)
		for o := 0; o < 65536; o++ {
			vals = append(vals, uint32(o))
		}
		for i := 0; i < *high; i++ {
			vals = append(vals, rnd.Uint32()|uint32(1)<<(16+uint(rnd.Intn(16))))
		}
		has := make([]string, 0, len(vals)) // one bit string per value: Op.Has then Event.Has for every probe
		strs := make([]string, 0, len(vals))
		for _, o := range vals {
			var sb strings.Builder
			for _, h := range probes {
				a := fsnotify.Op(o).Has(fsnotify.Op(h))
				b := fsnotify.Event{Op: fsnotify.Op(o)}.Has(fsnotify.Op(h))
				if a {
					sb.WriteByte('1')
				} else {
					sb.WriteByte('0')
				}
				if b {
					sb.WriteByte('1')
				} else {
					sb.WriteByte('0')
				}
			}
			has = append(has, sb.String())
			strs = append(strs, safeString(func() string { return fsnotify.Op(o).String() }))
		}
		// values as [high 16 bits, low 16 bits]: TLC integers are 32-bit signed
		split := func(xs []uint32) [][2]uint32 {
			out := make([][2]uint32, len(xs))
			for i, x := range xs {
				out[i] = [2]uint32{x >> 16, x & 0xffff}
			}
			return out
		}
		enc.Encode(J{"k": "op", "vals": split(vals), "probes": split(probes), "has": has, "str": strs, "nlow": 65536})
	}
	// ---- C16: Event.String for name shapes
	{
		names := []string{"", "a", "/tmp/file", "with space", "quote\"d", "back\\slash", "new\nline", "tab\t", "\xff\xfe", "日本語", "é", " lead", "trail ",
			"a←b", strings.Repeat("x", 300), "\x00nul", "'single'", "%s%d", "←"}
		ops := []uint32{0, 1, 2, 4, 8, 16, 3, 31, 32, 64, 128, 256, 511, 24, 512, 0x40000001}
		recs := []J{}
		for _, n := range names {
			for _, o := range ops {
				e := fsnotify.Event{Name: n, Op: fsnotify.Op(o)}
				recs = append(recs, J{"op": o, "qname": strconv.Quote(n), "qfrom": "", "str": safeString(e.String)})
			}
		}
		// with an old name: produced through the real translation (cookie match)
		for _, n := range names {
			if n == "" {
				continue
			}
			str, from := renamed(n)
			recs = append(recs, J{"op": 1, "qname": strconv.Quote("new"), "qfrom": strconv.Quote(from), "str": str})
		}
		enc.Encode(J{"k": "evstr", "recs": recs, "sep": " ← "})
	}
}

func safeString(f func() string) (s string) {
	defer func() {
		if r := recover(); r != nil {
			s = fmt.Sprintf("PANIC: %v", r)
		}
	}()
	return f()
}

// renamed produces an Event carrying an old name, through the real inotify translation.
func renamed(old string) (str, from string) {
	defer func() {
		if r := recover(); r != nil {
			str = fmt.Sprintf("PANIC: %v", r)
		}
	}()
	e := fsnotify.VerifInotifyRenamePair(old, "new")
	return e.String(), fsnotify.VerifRenamedFrom(e)
}

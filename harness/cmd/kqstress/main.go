// kqstress: random concurrent programs against the kqueue backend (the working tree's backend_kqueue.go compiled
// against the simulated kqueue, harness/simkq/unix): a few goroutines issue Add / Remove / WatchList / Close on
// overlapping paths while other goroutines change files inside the watched directories (raising NOTE_* like kqrun
// does) and a consumer receives at some pace.  Histories have the format of inostress and are checked for
// linearizability by TLC (spec/LinTrace.tla); built with -race: a race report ends the worker with exit status 66.
// After every program the simulator must hold no descriptor (C17: "every descriptor is closed again").
package main

import (
	"bufio"
	"encoding/json"
	"errors"
	"flag"
	"fmt"
	"math/rand"
	"os"
	"os/exec"
	"path/filepath"
	"runtime"
	"sort"
	"strings"
	"sync"
	"sync/atomic"
	"syscall"
	"time"

	sim "verif/harness/simkq/unix"
	kq "verif/harness/zz_gen/CUR/kq"
)

type J = map[string]interface{}

type rec struct {
	Stamp int64    `json:"stamp"`
	K     string   `json:"k"`
	T     string   `json:"t"`
	Op    string   `json:"op"`
	Path  string   `json:"path"`
	Res   string   `json:"res"`
	WL    []string `json:"wl"`
	Nil   bool     `json:"wlnil"`
}

var stamp int64

func classify(err error) string {
	switch {
	case err == nil:
		return "ok"
	case errors.Is(err, kq.ErrClosed):
		return "ErrClosed"
	case errors.Is(err, kq.ErrNonExistentWatch):
		return "ErrNonExistentWatch"
	}
	var en syscall.Errno
	if errors.As(err, &en) {
		return fmt.Sprintf("errno:%d", int(en))
	}
	return "other"
}

func main() {
	var (
		out    = flag.String("out", "", "history file")
		n      = flag.Int("n", 50, "programs")
		seed   = flag.Int64("seed", 1, "seed")
		worker = flag.Bool("worker", false, "internal")
		from   = flag.Int("from", 0, "internal: first program index")
	)
	flag.Parse()
	if *worker {
		os.Exit(runWorker(*out, *n, *seed, *from))
	}
	os.Exit(supervise(*out, *n, *seed))
}

func supervise(out string, n int, seed int64) int {
	self, _ := os.Executable()
	os.WriteFile(out, nil, 0o644)
	from, bad := 0, 0
	for from < n && bad < 12 {
		part := out + ".part"
		os.Remove(part)
		cmd := exec.Command(self, "-worker", "-out", part, "-n", fmt.Sprint(n), "-seed", fmt.Sprint(seed), "-from", fmt.Sprint(from))
		var stderr strings.Builder
		cmd.Stderr = &stderr
		cmd.Env = append(os.Environ(), "GORACE=halt_on_error=1 exitcode=66")
		err := cmd.Run()
		code := 0
		if err != nil {
			if ee, ok := err.(*exec.ExitError); ok {
				code = ee.ExitCode()
			} else {
				fmt.Fprintln(os.Stderr, "INFRA-ERROR:", err)
				return 2
			}
		}
		b, _ := os.ReadFile(part)
		os.Remove(part)
		if i := strings.LastIndexByte(string(b), '\n'); i >= 0 {
			b = b[:i+1]
		} else {
			b = nil
		}
		done, started := -1, -1
		for _, ln := range strings.Split(string(b), "\n") {
			var m struct {
				K   string `json:"k"`
				Idx int    `json:"idx"`
			}
			if json.Unmarshal([]byte(ln), &m) != nil {
				continue
			}
			if m.K == "prog" {
				started = m.Idx
			}
			if m.K == "endprog" {
				done = m.Idx
			}
		}
		f, _ := os.OpenFile(out, os.O_APPEND|os.O_WRONLY, 0o644)
		f.Write(b)
		if started > done {
			cls := "exit"
			se := stderr.String()
			switch {
			case strings.Contains(se, "DATA RACE"):
				cls = "race"
			case strings.Contains(se, "concurrent map"):
				cls = "fatal:concurrent map access"
			case strings.Contains(se, "closed channel"):
				cls = "panic:closed channel"
			case strings.Contains(se, "nil pointer"):
				cls = "panic:nil dereference"
			case strings.Contains(se, "panic:"):
				cls = "panic:other"
			case strings.Contains(se, "fatal error"):
				cls = "fatal:other"
			}
			if len(se) > 3000 {
				se = se[:3000]
			}
			ln, _ := json.Marshal(J{"k": "crash", "idx": started, "cls": cls, "code": code, "text": se})
			f.Write(append(ln, '\n'))
			ln, _ = json.Marshal(J{"k": "endprog", "idx": started, "hang": []string{}, "crashed": true})
			f.Write(append(ln, '\n'))
			done = started
		} else if code != 0 && code != 3 {
			f.Close()
			fmt.Fprintf(os.Stderr, "INFRA-ERROR: kqstress worker exit %d: %s\n", code, stderr.String())
			return 2
		}
		f.Close()
		if code != 0 {
			bad++
		}
		if done+1 <= from && code == 0 {
			break
		}
		from = done + 1
		if code == 0 {
			break
		}
	}
	return 0
}

func runWorker(out string, n int, seed int64, from int) int {
	f, err := os.Create(out)
	if err != nil {
		return 2
	}
	defer f.Close()
	w := bufio.NewWriter(f)
	emit := func(m interface{}) {
		b, _ := json.Marshal(m)
		w.Write(b)
		w.WriteByte('\n')
		w.Flush()
	}
	for i := from; i < n; i++ {
		rnd := rand.New(rand.NewSource(seed*1000003 + int64(i)))
		if runProgram(i, seed, rnd, emit) {
			return 3
		}
	}
	return 0
}

// raise the notes of one operation atomically (as kqrun does)
func note(path string, follow bool, n uint32) {
	if v, ok := sim.SimVnodeOf(path, follow); ok {
		sim.SimRaise(v, n)
	}
}

func runProgram(idx int, seed int64, rnd *rand.Rand, emit func(interface{})) (dirty bool) {
	procs := []int{1, 2, 4, 16}[rnd.Intn(4)]
	runtime.GOMAXPROCS(procs)
	root, _ := os.MkdirTemp("", "kqstress-")
	root, _ = filepath.EvalSymlinks(root)
	defer os.RemoveAll(root)
	os.Chdir(root)
	defer os.Chdir("/")
	paths := []string{"p1", "p2", "p3"}
	os.Mkdir("p1", 0o755)
	os.Mkdir("p2", 0o755)
	os.WriteFile("p3", nil, 0o644)
	os.WriteFile("p1/a", nil, 0o644)
	atomic.StoreInt64(&stamp, 0)
	threads := 2 + rnd.Intn(3)
	capv := []int{0, 0, 1, 16}[rnd.Intn(4)]
	pace := []string{"fast", "fast", "slow", "events_only", "late"}[rnd.Intn(5)]
	emit(J{"k": "prog", "idx": idx, "id": fmt.Sprintf("kqprog-%d-%d", seed, idx), "mode": "kqstable", "threads": threads, "cap": capv, "pace": pace, "procs": procs})
	var w *kq.Watcher
	var err error
	if capv == 0 {
		w, err = kq.NewWatcher()
	} else {
		w, err = kq.NewBufferedWatcher(uint(capv))
	}
	if err != nil {
		emit(J{"k": "infra", "what": "NewWatcher: " + err.Error()})
		emit(J{"k": "endprog", "idx": idx, "hang": []string{}, "crashed": false})
		return false
	}
	var mu sync.Mutex
	var hist []rec
	log := func(r rec) {
		mu.Lock()
		hist = append(hist, r)
		mu.Unlock()
	}
	type step struct{ op, path string }
	plans := make([][]step, threads)
	closer := -1
	if rnd.Intn(3) > 0 {
		closer = rnd.Intn(threads)
	}
	for t := range plans {
		for c := 0; c < 6+rnd.Intn(10); c++ {
			op := []string{"add", "add", "remove", "remove", "watchlist"}[rnd.Intn(5)]
			plans[t] = append(plans[t], step{op, paths[rnd.Intn(len(paths))]})
		}
		if t == closer {
			at := rnd.Intn(len(plans[t]) + 1)
			plans[t] = append(plans[t][:at], append([]step{{"close", ""}}, plans[t][at:]...)...)
		}
	}
	stop := make(chan struct{})
	var bg sync.WaitGroup
	bg.Add(1)
	go func() { // consumer
		defer bg.Done()
		evs, errs := w.Events, w.Errors
		if pace == "late" {
			<-stop
		}
		for evs != nil || errs != nil {
			if pace == "events_only" {
				select {
				case _, ok := <-evs:
					if !ok {
						evs = nil
					}
				case <-stop:
					pace = "fast"
				}
				continue
			}
			select {
			case _, ok := <-evs:
				if !ok {
					evs = nil
				}
			case _, ok := <-errs:
				if !ok {
					errs = nil
				}
			}
			if pace == "slow" {
				time.Sleep(50 * time.Microsecond)
			}
		}
	}()
	fsdone := make(chan struct{})
	var fsw sync.WaitGroup
	for g := 0; g < 2; g++ { // entries of the watched directories come and go; the watched paths themselves stay
		fsw.Add(1)
		go func(g int) {
			defer fsw.Done()
			dir := fmt.Sprintf("p%d", 1+g)
			for i := 1; ; i++ {
				select {
				case <-fsdone:
					return
				default:
				}
				n := fmt.Sprintf("%s/e%d_%d", dir, g, i%5)
				sim.SimHold()
				if os.WriteFile(n, nil, 0o644) == nil {
					note(dir, true, sim.NOTE_WRITE)
				}
				sim.SimRelease()
				sim.SimHold()
				if f, e := os.OpenFile(n, os.O_WRONLY|os.O_APPEND, 0); e == nil {
					f.Write([]byte("x"))
					f.Close()
					note(n, true, sim.NOTE_WRITE|sim.NOTE_EXTEND)
				}
				sim.SimRelease()
				sim.SimHold()
				if v, ok := sim.SimVnodeOf(n, false); ok && syscall.Unlink(n) == nil {
					note(dir, true, sim.NOTE_WRITE)
					sim.SimRaise(v, sim.NOTE_DELETE)
				}
				sim.SimRelease()
				if g == 0 && i%3 == 0 {
					sim.SimHold()
					os.Chmod("p3", os.FileMode(0o600|(i%2)*0o044))
					note("p3", true, sim.NOTE_ATTRIB)
					sim.SimRelease()
				}
				if i%8 == 0 {
					runtime.Gosched()
				}
			}
		}(g)
	}
	var api sync.WaitGroup
	inflight := make([]atomic.Value, threads)
	for t := range plans {
		api.Add(1)
		go func(t int) {
			defer api.Done()
			name := fmt.Sprintf("t%d", t)
			for _, s := range plans[t] {
				inflight[t].Store(s.op)
				log(rec{Stamp: atomic.AddInt64(&stamp, 1), K: "call", T: name, Op: s.op, Path: s.path})
				r := rec{K: "ret", T: name, Op: s.op, Path: s.path}
				switch s.op {
				case "add":
					r.Res = classify(w.Add(s.path))
				case "remove":
					r.Res = classify(w.Remove("./" + s.path))
				case "watchlist":
					l := w.WatchList()
					r.Res, r.Nil = "ok", l == nil
					sort.Strings(l)
					r.WL = l
				case "close":
					r.Res = classify(w.Close())
				}
				r.Stamp = atomic.AddInt64(&stamp, 1)
				log(r)
				inflight[t].Store("")
			}
		}(t)
	}
	apidone := make(chan struct{})
	go func() { api.Wait(); close(apidone) }()
	hang := []string{}
	select {
	case <-apidone:
	case <-time.After(8 * time.Second):
		for t := range inflight {
			if op, _ := inflight[t].Load().(string); op != "" {
				hang = append(hang, op)
			}
		}
		dirty = true
	}
	close(fsdone)
	fsw.Wait()
	close(stop)
	if !dirty {
		name := "t9"
		for _, s := range []step{{"watchlist", ""}, {"close", ""}, {"add", "p1"}, {"remove", "p1"}, {"watchlist", ""}} {
			log(rec{Stamp: atomic.AddInt64(&stamp, 1), K: "call", T: name, Op: s.op, Path: s.path})
			r := rec{K: "ret", T: name, Op: s.op, Path: s.path}
			done := make(chan struct{})
			go func() {
				switch s.op {
				case "add":
					r.Res = classify(w.Add(s.path))
				case "remove":
					r.Res = classify(w.Remove(s.path))
				case "watchlist":
					l := w.WatchList()
					r.Res, r.Nil = "ok", l == nil
					sort.Strings(l)
					r.WL = l
				case "close":
					r.Res = classify(w.Close())
				}
				close(done)
			}()
			select {
			case <-done:
				r.Stamp = atomic.AddInt64(&stamp, 1)
				log(r)
			case <-time.After(5 * time.Second):
				hang = append(hang, s.op)
				dirty = true
			}
			if dirty {
				break
			}
		}
	}
	if !dirty {
		c := make(chan struct{})
		go func() { bg.Wait(); close(c) }()
		select {
		case <-c:
		case <-time.After(5 * time.Second):
			hang = append(hang, "channels_not_closed")
			dirty = true
		}
	}
	// C17: after Close the Watcher holds no descriptor of the (simulated) kernel
	if !dirty {
		if left := sim.SimOpenFds(); len(left) > 0 {
			hang = append(hang, "descriptors_open_after_close")
			ps := []string{}
			for _, f := range left {
				ps = append(ps, f.Path)
				sim.Close(f.Fd) // the driver cleans up so that the next program starts from nothing
			}
			emit(J{"k": "infra", "what": "left open: " + strings.Join(ps, " ")})
		}
	}
	mu.Lock()
	sort.Slice(hist, func(i, j int) bool { return hist[i].Stamp < hist[j].Stamp })
	for i := range hist {
		if hist[i].K != "call" {
			continue
		}
		hist[i].Res = "noreturn"
		for j := i + 1; j < len(hist); j++ {
			if hist[j].K == "ret" && hist[j].T == hist[i].T {
				hist[i].Res, hist[i].WL, hist[i].Nil = hist[j].Res, hist[j].WL, hist[j].Nil
				break
			}
		}
	}
	for _, r := range hist {
		if r.WL == nil {
			r.WL = []string{}
		}
		emit(r)
	}
	mu.Unlock()
	emit(J{"k": "endprog", "idx": idx, "hang": hang, "crashed": false})
	return dirty
}

package main

import (
	"bufio"
	"encoding/json"
	"errors"
	"fmt"
	"os"
	"path/filepath"
	"runtime"
	"sort"
	"strconv"
	"strings"
	"syscall"
	"time"

	sim "verif/harness/simkq/unix"
	kq "verif/harness/zz_gen/CUR/kq"
)

type J = map[string]interface{}

type pendingCall struct {
	done chan J
	op   string
}

type scen struct {
	sc        Scenario
	root      string
	out       *bufio.Writer
	names     *names
	W         *kq.Watcher
	gids      map[int]bool
	evClosed  bool
	errClosed bool
	fds       map[string]*os.File
	calls     map[string]*pendingCall
	dirty     bool
	chmodT    map[string]bool
	unpriv    bool // files without the owner-read bit cannot be opened by the backend (step "unpriv")
	stretch    bool // inside a stretch: file system operations are collected, not logged one by one
	stretchOps []J
	ws        map[string]*struct{} // unused (shape compatibility with the shared helpers)
}

var blockWait = 2 * time.Second

func runWorker(in, out, tmp string) int {
	scs, err := readScenarios(in)
	if err != nil {
		fmt.Fprintln(os.Stderr, "INFRA-ERROR:", err)
		return 2
	}
	of, err := os.Create(out)
	if err != nil {
		fmt.Fprintln(os.Stderr, "INFRA-ERROR:", err)
		return 2
	}
	defer of.Close()
	w := bufio.NewWriter(of)
	for _, s := range scs {
		dirty, err := runScenario(s, w, tmp)
		w.Flush()
		if err != nil {
			fmt.Fprintln(os.Stderr, "INFRA-ERROR: scenario", s.ID, err)
			return 2
		}
		if dirty {
			return 3
		}
	}
	return 0
}

func (s *scen) emit(m J) {
	b, err := json.Marshal(m)
	if err != nil {
		panic(err)
	}
	s.out.Write(b)
	s.out.WriteByte('\n')
	s.out.Flush()
}

func runScenario(sc Scenario, out *bufio.Writer, tmp string) (bool, error) {
	root, err := os.MkdirTemp(tmp, "vk-")
	if err != nil {
		return false, err
	}
	root, _ = filepath.EvalSymlinks(root)
	defer os.RemoveAll(root)
	if err := os.Chdir(root); err != nil {
		return false, err
	}
	defer os.Chdir("/")
	s := &scen{sc: sc, root: root, out: out, fds: map[string]*os.File{}, calls: map[string]*pendingCall{}, chmodT: map[string]bool{}, gids: map[int]bool{}}
	s.names = newNames(sc.Seed, sc.Tbl)
	if n := len(sim.SimOpenFds()); n != 0 {
		// descriptors leaked by an earlier scenario of this process: start from a clean process
		return true, nil
	}
	s.emit(J{"k": "reset", "id": sc.ID, "seed": sc.Seed, "tbl": sc.Tbl, "fam": sc.Fam})
	for i := range sc.Steps {
		s.exec(&sc.Steps[i])
	}
	for _, f := range s.fds {
		f.Close()
	}
	sim.SimHoldReset()
	sim.SimUnprivileged(false)
	if s.W != nil {
		done := make(chan struct{})
		go func() { s.W.Close(); close(done) }()
		select {
		case <-done:
		case <-time.After(500 * time.Millisecond):
			s.dirty = true
		}
	}
	if len(s.calls) > 0 || len(sim.SimOpenFds()) > 0 {
		s.dirty = true // leaked simulated descriptors would confuse the next scenario
	}
	s.emit(J{"k": "end", "id": sc.ID, "dirty": s.dirty})
	return s.dirty, nil
}

func classify(err error) string {
	switch {
	case err == nil:
		return "ok"
	case errors.Is(err, kq.ErrClosed):
		return "ErrClosed"
	case errors.Is(err, kq.ErrNonExistentWatch):
		return "ErrNonExistentWatch"
	case errors.Is(err, kq.ErrEventOverflow):
		return "overflow"
	}
	var en syscall.Errno
	if errors.As(err, &en) {
		return "errno:" + errnoName(err)
	}
	var pe *os.PathError
	if errors.As(err, &pe) {
		return "errno:" + errnoName(pe.Err)
	}
	t := err.Error()
	if len(t) > 60 {
		t = t[:60]
	}
	return "other:" + strings.ToValidUTF8(t, "?")
}

// ---------------------------------------------------------------- quiescence

func (s *scen) quiesce() bool {
	deadline := time.Now().Add(10 * time.Second)
	var last string
	for spin := 0; ; spin++ {
		sig, busy := s.sample()
		if !busy {
			if sig == last {
				return true
			}
			last = sig
		} else {
			last = ""
		}
		if time.Now().After(deadline) {
			return false
		}
		if spin < 20 {
			runtime.Gosched()
		} else {
			time.Sleep(50 * time.Microsecond)
		}
	}
}

func (s *scen) sample() (string, bool) {
	var sb strings.Builder
	waiting := false
	for _, g := range goroutines() {
		if !g.lib {
			continue
		}
		if !blockedState(g.state) {
			return "", true
		}
		if g.state == "sync.Cond.Wait" {
			waiting = true
		}
		fmt.Fprintf(&sb, "%d:%s;", g.id, g.state)
	}
	if waiting && sim.SimPending() > 0 {
		return "", true // the reader sleeps in kevent() but something is pending: it is about to wake up
	}
	return sb.String(), false
}

func libGids() map[int]bool {
	m := map[int]bool{}
	for _, g := range goroutines() {
		if g.lib && !g.drv {
			m[g.id] = true
		}
	}
	return m
}

// ---------------------------------------------------------------- steps

func orEmpty(p []string) []string {
	if p == nil {
		return []string{}
	}
	return p
}

func (s *scen) exec(st *Step) {
	switch st.S {
	case "new":
		s.stepNew(st)
	case "fs":
		s.stepFs(st)
	case "rep":
		s.stepRep(st)
	case "call":
		s.stepCall(st)
	case "recv":
		s.stepRecv(st)
	case "drain":
		s.stepDrain(st)
	case "obs":
		s.stepObs(st)
	case "stretch":
		// A stretch of operations and API calls made while the reader is held back.  The file system operations are
		// logged as ONE atomic burst when the stretch ends (API calls are logged where they happen): what matters for
		// the reader is what each knote that still exists has accumulated and what the directories look like then.
		if st.On {
			sim.SimHold()
			s.stretch = true
			s.stretchOps = nil
		} else {
			s.stretch = false
			if len(s.stretchOps) > 0 {
				live := map[int]bool{}
				for _, f := range sim.SimOpenFds() {
					live[f.Ser] = true
				}
				ops := []J{}
				for _, o := range s.stretchOps {
					kept := []note{}
					for _, n := range o["notes"].([]note) {
						if live[n.Serial] {
							kept = append(kept, n)
						}
					}
					o["notes"] = kept
					ops = append(ops, o)
				}
				s.emit(J{"k": "fs", "op": "rep", "p": []string{}, "to": []string{}, "ret": "ok", "kind": "", "notes": []note{}, "ops": ops, "unordered": false,
					"atomic": true, "final": s.finalListing()})
				s.stretchOps = nil
			}
			sim.SimRelease()
		}
		s.emit(J{"k": "hold", "on": st.On})
	case "hold": // the reader is not woken up until the hold is released (operations pile up: a forced schedule)
		if st.On {
			sim.SimHold()
		} else {
			sim.SimRelease()
		}
		s.emit(J{"k": "hold", "on": st.On})
	case "kmodel": // the bounded model's prediction for the observation just made (judged by the trace specification)
		if st.Model != nil {
			wl := st.Model.WL
			if wl == nil {
				wl = []string{}
			}
			s.emit(J{"k": "kmodel", "nfd": st.Model.NFd, "npath": st.Model.NPath, "nbyuser": st.Model.NByUser, "nseen": st.Model.NSeen, "wl": wl})
		}
	case "unpriv":
		// from now on a file without the owner-read bit cannot be opened by the backend (as for an unprivileged user)
		sim.SimUnprivileged(st.N != 0)
		s.unpriv = st.N != 0
		s.emit(J{"k": "unpriv", "on": st.N != 0})
	case "kfault": // fault injection: the n-th registration of a new knote fails (kevent: ENOMEM)
		sim.SimFailAdd(st.N)
		s.emit(J{"k": "kfault", "n": st.N})
	case "loop":
		for i := 0; i < st.N; i++ {
			for j := range st.Body {
				s.exec(&st.Body[j])
			}
		}
	default:
		s.emit(J{"k": "bad", "s": st.S})
	}
}

func (s *scen) stepNew(st *Step) {
	capv := -1
	if st.Cap != nil {
		capv = *st.Cap
	}
	before := libGids()
	var w *kq.Watcher
	var err error
	if capv < 0 {
		w, err = kq.NewWatcher()
	} else {
		w, err = kq.NewBufferedWatcher(uint(capv))
	}
	line := J{"k": "new", "w": "w1", "cap": capv, "ret": classify(err)}
	if err == nil {
		s.W = w
		s.quiesce()
		for id := range libGids() {
			if !before[id] {
				s.gids[id] = true
			}
		}
	}
	s.emit(line)
}

type note struct {
	Path   []string `json:"path"`
	Note   uint32   `json:"note"`
	Serial int      `json:"-"` // which open the knote hangs on (a stretch keeps only notes whose open is still there at its end)
}

// raise notes on the vnode v and report which watch descriptors (by the path they were opened with) were hit
func (s *scen) raise(v sim.SimVnode, ok bool, n uint32, acc *[]note) {
	if !ok {
		return
	}
	paths := map[int]string{}
	for _, f := range sim.SimOpenFds() {
		paths[f.Fd] = f.Path
	}
	for _, a := range sim.SimRaise(v, n) {
		*acc = append(*acc, note{Path: s.tokPath(paths[a.Fd]), Note: a.Note, Serial: a.Serial})
	}
}

func kindOf(path string, follow bool) string {
	var st syscall.Stat_t
	var err error
	if follow {
		err = syscall.Stat(path, &st)
	} else {
		err = syscall.Lstat(path, &st)
	}
	if err != nil {
		return "missing"
	}
	switch st.Mode & syscall.S_IFMT {
	case syscall.S_IFDIR:
		return "dir"
	case syscall.S_IFLNK:
		return "symlink"
	case syscall.S_IFIFO:
		return "fifo"
	}
	return "file"
}

// doFs performs the operation on the real file system and raises NOTE_* as FreeBSD's vop_*_post hooks do
// (directory first, then the vnode itself; spec/KqKernel rules in KqIdeal.tla are compared with this).
func (s *scen) doFs(st *Step) (ret, kind string, notes []note) {
	p := s.fsPath(st.P)
	dir := filepath.Dir(p)
	notes = []note{}
	var err error
	dv, dok := sim.SimVnodeOf(dir, true)
	sim.SimHold() // all notes of one operation are raised "inside the system call"
	defer sim.SimRelease()
	switch st.Op {
	case "create":
		var f *os.File
		f, err = os.OpenFile(p, os.O_CREATE|os.O_EXCL|os.O_WRONLY, 0o644)
		if err == nil {
			f.Close()
			kind = "file"
			s.raise(dv, dok, sim.NOTE_WRITE, &notes)
		}
	case "mkdir":
		err = os.Mkdir(p, 0o755)
		if err == nil {
			kind = "dir"
			s.raise(dv, dok, sim.NOTE_WRITE|sim.NOTE_LINK, &notes)
		}
	case "mkfifo":
		err = syscall.Mkfifo(p, 0o644)
		if err == nil {
			kind = "fifo"
			s.raise(dv, dok, sim.NOTE_WRITE, &notes)
		}
	case "symlink":
		err = os.Symlink(s.render(st.Tgt), p)
		if err == nil {
			kind = "symlink"
			s.raise(dv, dok, sim.NOTE_WRITE, &notes)
		}
	case "write":
		kind = kindOf(p, true)
		v, vok := sim.SimVnodeOf(p, true)
		var f *os.File
		f, err = os.OpenFile(p, os.O_WRONLY|os.O_APPEND, 0)
		if err == nil {
			_, err = f.Write([]byte("x"))
			f.Close()
			s.raise(v, vok, sim.NOTE_WRITE|sim.NOTE_EXTEND, &notes)
		}
	case "trunc":
		kind = kindOf(p, true)
		v, vok := sim.SimVnodeOf(p, true)
		err = os.Truncate(p, 0)
		if err == nil {
			s.raise(v, vok, sim.NOTE_ATTRIB, &notes)
		}
	case "chmod":
		kind = kindOf(p, true)
		v, vok := sim.SimVnodeOf(p, true)
		mode := os.FileMode(0o600)
		if s.chmodT[p] {
			mode = 0o644
		}
		if kind == "dir" {
			mode |= 0o100
		}
		s.chmodT[p] = !s.chmodT[p]
		err = os.Chmod(p, mode)
		if err == nil {
			s.raise(v, vok, sim.NOTE_ATTRIB, &notes)
		}
	case "unreadable", "readable": // chmod 0200 / 0644: whether the owner could open the file (see the "unpriv" step)
		kind = kindOf(p, true)
		v, vok := sim.SimVnodeOf(p, true)
		mode := os.FileMode(0o644)
		if st.Op == "unreadable" {
			mode = 0o200
		}
		err = os.Chmod(p, mode)
		if err == nil {
			s.raise(v, vok, sim.NOTE_ATTRIB, &notes)
		}
	case "unlink":
		kind = kindOf(p, false)
		v, vok := sim.SimVnodeOf(p, false)
		err = syscall.Unlink(p)
		if err == nil {
			s.raise(dv, dok, sim.NOTE_WRITE, &notes)
			s.raise(v, vok, sim.NOTE_DELETE, &notes)
		}
	case "rmdir":
		kind = kindOf(p, false)
		v, vok := sim.SimVnodeOf(p, false)
		err = syscall.Rmdir(p)
		if err == nil {
			s.raise(dv, dok, sim.NOTE_WRITE|sim.NOTE_LINK, &notes)
			s.raise(v, vok, sim.NOTE_DELETE, &notes)
		}
	case "rename", "rename2": // rename2: rename(2) itself (os.Rename refuses to replace a directory, the system call replaces an empty one)
		kind = kindOf(p, false)
		to := s.fsPath(st.To)
		v, vok := sim.SimVnodeOf(p, false)
		tv, tok := sim.SimVnodeOf(to, false)
		tdv, tdok := sim.SimVnodeOf(filepath.Dir(to), true)
		if st.Op == "rename2" {
			err = syscall.Rename(p, to)
		} else {
			err = os.Rename(p, to)
		}
		if err == nil {
			s.raise(dv, dok, sim.NOTE_WRITE, &notes)
			if tdok && tdv != dv {
				s.raise(tdv, tdok, sim.NOTE_WRITE, &notes)
			}
			s.raise(v, vok, sim.NOTE_RENAME, &notes)
			if tok && tv != v {
				s.raise(tv, tok, sim.NOTE_DELETE, &notes)
			}
		}
	default:
		err = syscall.ENOSYS
	}
	if err == nil {
		ret = "ok"
	} else {
		ret = "errno:" + errnoName(err)
	}
	return
}

// rmrf is logged as the sequence of unlink / rmdir operations it consists of (bottom-up)
func (s *scen) stepRmrf(st *Step) {
	ops := []J{}
	var walk func(tp []string)
	walk = func(tp []string) {
		q := s.fsPath(tp)
		if kindOf(q, false) == "dir" {
			ents, _ := os.ReadDir(q)
			for _, e := range ents {
				walk(append(append([]string{}, tp...), s.names.tok(e.Name())))
			}
			sub := Step{Op: "rmdir", P: tp}
			ret, kind, notes := s.doFs(&sub)
			ops = append(ops, J{"op": "rmdir", "p": tp, "to": []string{}, "ret": ret, "kind": kind, "notes": notes})
			return
		}
		sub := Step{Op: "unlink", P: tp}
		ret, kind, notes := s.doFs(&sub)
		ops = append(ops, J{"op": "unlink", "p": tp, "to": []string{}, "ret": ret, "kind": kind, "notes": notes})
	}
	walk(st.P)
	s.emit(J{"k": "fs", "op": "rep", "p": []string{}, "to": []string{}, "ret": "ok", "kind": "", "notes": []note{}, "ops": ops, "unordered": true, "atomic": false, "final": []J{}})
}

func (s *scen) stepFs(st *Step) {
	if st.Op == "rmrf" {
		s.stepRmrf(st)
		return
	}
	ret, kind, notes := s.doFs(st)
	if s.stretch {
		s.stretchOps = append(s.stretchOps, J{"op": st.Op, "p": orEmpty(st.P), "to": orEmpty(st.To), "ret": ret, "kind": kind, "notes": notes})
		return
	}
	s.emit(J{"k": "fs", "op": st.Op, "p": orEmpty(st.P), "to": orEmpty(st.To), "ret": ret, "kind": kind, "notes": notes, "ops": []J{}, "unordered": false})
}

// stepRep: a burst of pattern instances; every single operation is logged inside one line
func (s *scen) stepRep(st *Step) {
	ops := []J{}
	if st.Atomic {
		// the whole burst happens before the reader is woken up; what the directories look like
		// at that moment (an observation of the environment) goes into the trace line
		sim.SimHold()
		defer func() {
			final := s.finalListing()
			s.emit(J{"k": "fs", "op": "rep", "p": []string{}, "to": []string{}, "ret": "ok", "kind": "", "notes": []note{}, "ops": ops, "unordered": false, "atomic": true, "final": final})
			sim.SimRelease()
		}()
	}
	for i := 1; i <= st.K; i++ {
		for _, ps := range st.Pat {
			q := ps
			q.P = subst(ps.P, i)
			q.To = subst(ps.To, i)
			ret, kind, notes := s.doFs(&q)
			ops = append(ops, J{"op": q.Op, "p": orEmpty(q.P), "to": orEmpty(q.To), "ret": ret, "kind": kind, "notes": notes})
		}
	}
	if st.Atomic {
		return
	}
	s.emit(J{"k": "fs", "op": "rep", "p": []string{}, "to": []string{}, "ret": "ok", "kind": "", "notes": []note{}, "ops": ops, "unordered": false, "atomic": false, "final": []J{}})
}

// finalListing: the content of every directory of the scenario tree (an observation of the environment)
func (s *scen) finalListing() []J {
	final := []J{}
	filepath.WalkDir(s.root, func(p string, d os.DirEntry, err error) error {
		if err != nil || !d.IsDir() {
			return nil
		}
		names := []J{}
		if es, e := os.ReadDir(p); e == nil {
			for _, x := range es {
				names = append(names, J{"n": s.names.tok(x.Name()), "kind": kindOf(filepath.Join(p, x.Name()), false)})
			}
		}
		final = append(final, J{"dir": s.tokPath(p), "names": names}) // ["/", "d1"]: the real place, as in user[u].real
		return nil
	})
	return final
}

func subst(p []string, i int) []string {
	if p == nil {
		return nil
	}
	out := make([]string, len(p))
	for j, c := range p {
		out[j] = strings.ReplaceAll(c, "%", strconv.Itoa(i))
	}
	return out
}

func (s *scen) tokList(paths []string) [][]string {
	out := make([][]string, 0, len(paths))
	for _, p := range paths {
		out = append(out, s.tokPath(p))
	}
	sort.Slice(out, func(i, j int) bool { return strings.Join(out[i], "\x00") < strings.Join(out[j], "\x00") })
	return out
}

func (s *scen) stepCall(st *Step) {
	line := J{"k": "call", "t": st.T, "op": st.Op, "abs": false, "arg": []string{}, "lkind": "", "tkind": "", "target": []string{}, "entries": []J{},
		"ret": "", "wl": [][]string{}, "wlnil": false}
	if s.W == nil {
		line["ret"] = "nowatcher"
		s.emit(line)
		return
	}
	var argstr string
	if st.Arg != nil {
		line["abs"] = st.Arg.Abs
		line["arg"] = orEmpty(st.Arg.C)
		argstr = s.render(st.Arg)
	}
	if st.Op == "add" {
		// what the cleaned argument names right now (observations of the environment)
		c := filepath.Clean(argstr)
		line["lkind"] = kindOf(c, false)
		tgt := c
		if line["lkind"] == "symlink" {
			if l, err := os.Readlink(c); err == nil {
				if !filepath.IsAbs(l) {
					l = filepath.Join(filepath.Dir(c), l)
				}
				tgt = l
				line["target"] = s.tokPath(l)
			}
		}
		line["tkind"] = kindOf(tgt, false)
		if line["tkind"] == "dir" {
			ents := []J{}
			des, _ := os.ReadDir(tgt)
			for _, d := range des {
				unr := false
				if fi, err := os.Stat(filepath.Join(tgt, d.Name())); err == nil && s.unpriv && fi.Mode().Perm()&0o400 == 0 {
					unr = true // the backend will not be able to open it (simulated unprivileged owner)
				}
				ents = append(ents, J{"n": s.names.tok(d.Name()), "kind": kindOf(filepath.Join(tgt, d.Name()), false), "tkind": kindOf(filepath.Join(tgt, d.Name()), true), "unreadable": unr})
			}
			line["entries"] = ents
		}
	}
	pc := &pendingCall{done: make(chan J, 1), op: st.Op}
	W := s.W
	go func() {
		r := J{}
		switch st.Op {
		case "add":
			r["ret"] = classify(W.Add(argstr))
		case "remove":
			r["ret"] = classify(W.Remove(argstr))
		case "watchlist":
			l := W.WatchList()
			r["ret"], r["wl"], r["wlnil"] = "ok", l, l == nil
		case "close":
			r["ret"] = classify(W.Close())
		default:
			r["ret"] = "badop"
		}
		pc.done <- r
	}()
	var r J
	select {
	case r = <-pc.done:
	case <-time.After(100 * time.Millisecond):
		s.quiesce()
		select {
		case r = <-pc.done:
		case <-time.After(blockWait):
		}
	}
	if r == nil {
		line["ret"] = "blocked"
		s.calls[st.T] = pc
		s.dirty = true
		s.emit(line)
		return
	}
	line["ret"] = r["ret"]
	if l, ok := r["wl"].([]string); ok {
		line["wl"] = s.tokList(l)
		line["wlnil"] = r["wlnil"]
	}
	s.emit(line)
}

func (s *scen) evVal(e kq.Event) J {
	return J{"t": "ev", "ch": "ev", "name": s.tokPath(e.Name), "op": uint32(e.Op), "cls": ""}
}

func val(t, ch, cls string) J {
	return J{"t": t, "ch": ch, "name": []string{}, "op": 0, "cls": cls}
}

func (s *scen) tryRecv(ch string) J {
	if ch == "err" {
		select {
		case err, ok := <-s.W.Errors:
			if !ok {
				s.errClosed = true
				return val("closed", "err", "")
			}
			return val("err", "err", classify(err))
		default:
			return val("none", "err", "")
		}
	}
	select {
	case e, ok := <-s.W.Events:
		if !ok {
			s.evClosed = true
			return val("closed", "ev", "")
		}
		return s.evVal(e)
	default:
		return val("none", "ev", "")
	}
}

func (s *scen) stepRecv(st *Step) {
	if s.W == nil {
		s.emit(J{"k": "recv", "ch": st.Ch, "val": val("nowatcher", st.Ch, ""), "q": false})
		return
	}
	q := s.quiesce()
	s.emit(J{"k": "recv", "ch": st.Ch, "val": s.tryRecv(st.Ch), "q": q})
}

func (s *scen) stepDrain(st *Step) {
	vals := []J{}
	end := "idle"
	if s.W == nil {
		s.emit(J{"k": "drain", "vals": vals, "end": "nowatcher"})
		return
	}
	for len(vals) < 1<<20 {
		if !s.quiesce() {
			end = "unquiet"
			break
		}
		got := false
		if !s.evClosed {
			for {
				v := s.tryRecv("ev")
				if v["t"] == "none" {
					break
				}
				vals = append(vals, v)
				got = true
				if v["t"] == "closed" || cap(s.W.Events) == 0 {
					break
				}
			}
		}
		if !s.errClosed {
			v := s.tryRecv("err")
			if v["t"] != "none" {
				vals = append(vals, v)
				got = true
			}
		}
		if s.evClosed && s.errClosed {
			end = "closed"
			break
		}
		if !got {
			break
		}
	}
	s.emit(J{"k": "drain", "vals": vals, "end": end})
}

func (s *scen) stepObs(st *Step) {
	q := s.quiesce()
	line := J{"k": "obs", "q": q, "fds": []J{}, "nkq": 0, "npipe": 0, "wds": []int{}, "npath": -1, "nbydir": -1, "nseen": -1, "nbyuser": -1, "paths": [][]string{},
		"rd": "none", "pendingnotes": sim.SimPending(), "retrievals": []int{}, "kfaultleft": sim.SimFailLeft()}
	fds := []J{}
	for _, f := range sim.SimOpenFds() {
		switch f.Kind {
		case "file":
			fds = append(fds, J{"fd": f.Fd, "path": s.tokPath(f.Path)})
		case "kq":
			line["nkq"] = line["nkq"].(int) + 1
		default:
			line["npipe"] = line["npipe"].(int) + 1
		}
	}
	line["fds"] = fds
	if s.W != nil {
		wd, npath, nbydir, nseen, nbyuser, paths := kq.KqTables(s.W)
		sort.Ints(wd)
		if wd == nil {
			wd = []int{}
		}
		line["wds"], line["npath"], line["nbydir"], line["nseen"], line["nbyuser"] = wd, npath, nbydir, nseen, nbyuser
		line["paths"] = s.tokList(paths)
		rd := "gone"
		for _, g := range goroutines() {
			if s.gids[g.id] {
				rd = g.state
			}
		}
		line["rd"] = rd
	}
	r := sim.Retrievals
	if len(r) > 50 {
		r = r[len(r)-50:]
	}
	if r != nil {
		line["retrievals"] = r
	}
	s.emit(line)
}

// Pieces shared with cmd/inorun (names <-> tokens, goroutine states, errno names), copied verbatim.
package main

import (
	"encoding/hex"
	"errors"
	"fmt"
	"hash/fnv"
	"runtime"
	"strconv"
	"strings"
	"syscall"
)

// ---------------------------------------------------------------- names

type names struct {
	seed int64
	tbl  int
	t2r  map[string]string
	r2t  map[string]string
}

func newNames(seed int64, tbl int) *names {
	return &names{seed: seed, tbl: tbl, t2r: map[string]string{}, r2t: map[string]string{}}
}

var nameLens = []int{1, 2, 15, 16, 17, 31, 32, 33, 47, 48, 49, 63, 64, 65, 127, 128, 129, 254, 255, 7, 100, 200}
var fillers = []string{"a", "b c", "é", "日本", "x😀", "-_.", " ", "ü~"}
var prefixes = []string{"", ".", "-", " ", "..", "--", "é", "#"}

func hash(seed int64, s string) uint64 {
	h := fnv.New64a()
	fmt.Fprintf(h, "%d/%s", seed, s)
	return h.Sum64()
}

func (n *names) real(tok string) string {
	if tok == "" || tok == "." || tok == ".." {
		return tok
	}
	if r, ok := n.t2r[tok]; ok {
		return r
	}
	var r string
	switch {
	case tok == "LONG":
		r = strings.Repeat("L", 256)
	case n.tbl == 0:
		r = tok
	default:
		h := hash(n.seed+int64(n.tbl)*7919, tok)
		for try := 0; ; try++ {
			L := nameLens[int((h+uint64(try))%uint64(len(nameLens)))]
			if strings.HasPrefix(tok, "x") && n.tbl%2 == 1 {
				// burst names: keep them short-ish so that many fit a read, but vary the padding class
				L = 1 + int((h+uint64(try))%40)
			}
			pre := prefixes[int((h>>8)%uint64(len(prefixes)))]
			fil := fillers[int((h>>16)%uint64(len(fillers)))]
			r = buildName(pre, tok, fil, L, h+uint64(try))
			if r == "" || r == "." || r == ".." {
				continue
			}
			if _, dup := n.r2t[r]; !dup {
				break
			}
		}
	}
	n.t2r[tok] = r
	n.r2t[r] = tok
	return r
}

// buildName makes a name of exactly L bytes when possible.
func buildName(pre, tok, fil string, L int, h uint64) string {
	base := pre + tok
	if len(base) > L {
		// very short names: derive from the hash, printable and unusual
		const pool = "abcdefghijklmnopqrstuvwxyzABCDEFGHIJKLMNOPQRSTUVWXYZ0123456789_-+=@%~, "
		b := make([]byte, L)
		for i := range b {
			b[i] = pool[int((h>>(uint(i)*6))%uint64(len(pool)))]
		}
		return string(b)
	}
	for len(base)+len(fil) <= L {
		base += fil
	}
	for len(base) < L {
		base += "z"
	}
	return base
}

func (n *names) tok(real string) string {
	if t, ok := n.r2t[real]; ok {
		return t
	}
	if real == "." || real == ".." {
		return real
	}
	if real == "" {
		return ""
	}
	h := hex.EncodeToString([]byte(real))
	if len(h) > 48 {
		h = h[:48] + "+"
	}
	return "?" + h
}

// render turns an argument (token components incl. "", ".", "..") into the string passed to the API.
func (s *scen) render(a *Arg) string {
	parts := make([]string, len(a.C))
	for i, c := range a.C {
		parts[i] = s.names.real(c)
	}
	p := strings.Join(parts, "/")
	if a.Abs {
		return s.root + "/" + p
	}
	if p == "" {
		return "."
	}
	return p
}

// fsPath is the real path of a token path relative to the root (always absolute; filesystem steps are not subject to spelling).
func (s *scen) fsPath(p []string) string {
	parts := make([]string, 0, len(p)+1)
	parts = append(parts, s.root)
	for _, c := range p {
		parts = append(parts, s.names.real(c))
	}
	return strings.Join(parts, "/")
}

// tokPath maps a name that came back from the library to tokens.
func (s *scen) tokPath(name string) []string {
	var out []string
	rest := name
	switch {
	case name == s.root:
		return []string{"/"}
	case strings.HasPrefix(name, s.root+"/"):
		out = append(out, "/")
		rest = name[len(s.root)+1:]
	case strings.HasPrefix(name, "/"):
		return []string{s.names.tok(name)}
	}
	if rest == "" {
		return append(out, "?")
	}
	for _, c := range strings.Split(rest, "/") {
		out = append(out, s.names.tok(c))
	}
	return out
}

type gor struct {
	id    int
	state string
	lib   bool // has fsnotify frames
	drv   bool // has driver (main.) frames
}

var stackBuf = make([]byte, 1<<20)

func goroutines() []gor {
	for {
		n := runtime.Stack(stackBuf, true)
		if n < len(stackBuf) {
			return parseStacks(string(stackBuf[:n]))
		}
		stackBuf = make([]byte, 2*len(stackBuf))
	}
}

func parseStacks(s string) []gor {
	var out []gor
	for _, blk := range strings.Split(s, "\n\n") {
		if !strings.HasPrefix(blk, "goroutine ") {
			continue
		}
		nl := strings.IndexByte(blk, '\n')
		hdr := blk
		body := ""
		if nl >= 0 {
			hdr, body = blk[:nl], blk[nl+1:]
		}
		var g gor
		rest := hdr[len("goroutine "):]
		sp := strings.IndexByte(rest, ' ')
		if sp < 0 {
			continue
		}
		g.id, _ = strconv.Atoi(rest[:sp])
		lb, rb := strings.IndexByte(rest, '['), strings.LastIndexByte(rest, ']')
		if lb >= 0 && rb > lb {
			st := rest[lb+1 : rb]
			if c := strings.IndexByte(st, ','); c >= 0 {
				st = st[:c]
			}
			g.state = st
		}
		g.lib = strings.Contains(body, "/zz_gen/CUR/kq.")
		g.drv = strings.Contains(body, "main.")
		out = append(out, g)
	}
	return out
}

func blockedState(st string) bool {
	switch st {
	case "IO wait", "select", "chan receive", "chan send", "sync.Mutex.Lock", "semacquire", "sync.Cond.Wait",
		"sync.RWMutex.Lock", "sync.RWMutex.RLock", "select (no cases)", "chan receive (nil chan)", "chan send (nil chan)",
		"sync.WaitGroup.Wait":
		return true
	}
	return false
}

var errnoNames = map[syscall.Errno]string{
	syscall.ENOENT: "ENOENT", syscall.ENOTDIR: "ENOTDIR", syscall.ELOOP: "ELOOP", syscall.ENAMETOOLONG: "ENAMETOOLONG",
	syscall.EEXIST: "EEXIST", syscall.EINVAL: "EINVAL", syscall.EBADF: "EBADF", syscall.EMFILE: "EMFILE",
	syscall.ENOSPC: "ENOSPC", syscall.EACCES: "EACCES", syscall.ENOTEMPTY: "ENOTEMPTY", syscall.EISDIR: "EISDIR",
	syscall.EPERM: "EPERM", syscall.ENOMEM: "ENOMEM", syscall.EXDEV: "EXDEV", syscall.ENFILE: "ENFILE", syscall.EAGAIN: "EAGAIN",
}

func errnoName(err error) string {
	var en syscall.Errno
	if errors.As(err, &en) {
		if n, ok := errnoNames[en]; ok {
			return n
		}
		return "E" + strconv.Itoa(int(en))
	}
	return "other"
}


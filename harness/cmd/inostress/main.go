// inostress runs random concurrent programs against one Watcher each: a few
// goroutines issue Add/Remove/WatchList/Close on overlapping paths while other
// goroutines change the file system and a consumer receives at a random pace.
// Every call and return is stamped by one atomic counter; the history is
// written as NDJSON for the linearizability check by TLC (spec/LinTrace.tla).
// Built with -race: a race report ends the process with exit status 66.
package main

import (
	"bufio"
	"encoding/json"
	"errors"
	"flag"
	"fmt"
	"math/rand"
	"os"
	"os/exec"
	"path/filepath"
	"runtime"
	"sort"
	"strings"
	"sync"
	"sync/atomic"
	"syscall"
	"time"

	"github.com/fsnotify/fsnotify"
)

type J = map[string]interface{}

type rec struct {
	Stamp int64    `json:"stamp"`
	K     string   `json:"k"` // call | ret | fs
	T     string   `json:"t"`
	Op    string   `json:"op"`
	Path  string   `json:"path"`
	Res   string   `json:"res"`
	WL    []string `json:"wl"`
	Nil   bool     `json:"wlnil"`
}

var stamp int64
var onlyMode string
var schedCap int

func classify(err error) string {
	switch {
	case err == nil:
		return "ok"
	case errors.Is(err, fsnotify.ErrClosed):
		return "ErrClosed"
	case errors.Is(err, fsnotify.ErrNonExistentWatch):
		return "ErrNonExistentWatch"
	}
	var en syscall.Errno
	if errors.As(err, &en) {
		switch en {
		case syscall.ENOENT:
			return "errno:ENOENT"
		case syscall.EINVAL:
			return "errno:EINVAL"
		case syscall.ENOTDIR:
			return "errno:ENOTDIR"
		case syscall.EBADF:
			return "errno:EBADF"
		}
		return fmt.Sprintf("errno:%d", int(en))
	}
	return "other"
}

type program struct {
	ID      string
	Seed    int64
	Mode    string // "stable": watched paths are never deleted; "churn": they are deleted/renamed/recreated; "renames": rename bursts in a watched dir
	Threads int
	Calls   int
	Cap     int
	Pace    string
	Procs   int
}

func main() {
	var (
		out    = flag.String("out", "", "history file")
		n      = flag.Int("n", 50, "programs")
		seed   = flag.Int64("seed", 1, "seed")
		worker = flag.Bool("worker", false, "internal")
		from   = flag.Int("from", 0, "internal: first program index")
		mode   = flag.String("mode", "", "sched: only programs for validation against the scheduling model (spec/SchedTrace.tla)")
		capf   = flag.Int("cap", 0, "sched mode: capacity of Events")
	)
	flag.Parse()
	onlyMode, schedCap = *mode, *capf
	if *worker {
		os.Exit(runWorker(*out, *n, *seed, *from))
	}
	os.Exit(supervise(*out, *n, *seed))
}

// supervise restarts the worker after a program that left goroutines behind or killed the process.
func supervise(out string, n int, seed int64) int {
	self, _ := os.Executable()
	os.WriteFile(out, nil, 0o644)
	from := 0
	bad := 0 // programs that hung or killed the worker: each costs seconds, and a dozen is enough to report
	for from < n && bad < 12 {
		part := out + ".part"
		os.Remove(part)
		cmd := exec.Command(self, "-worker", "-out", part, "-n", fmt.Sprint(n), "-seed", fmt.Sprint(seed), "-from", fmt.Sprint(from), "-mode", onlyMode, "-cap", fmt.Sprint(schedCap))
		var stderr strings.Builder
		cmd.Stderr = &stderr
		cmd.Env = append(os.Environ(), "GORACE=halt_on_error=1 exitcode=66")
		err := cmd.Run()
		code := 0
		if err != nil {
			if ee, ok := err.(*exec.ExitError); ok {
				code = ee.ExitCode()
			} else {
				fmt.Fprintln(os.Stderr, "INFRA-ERROR:", err)
				return 2
			}
		}
		b, _ := os.ReadFile(part)
		os.Remove(part)
		if i := strings.LastIndexByte(string(b), '\n'); i >= 0 {
			b = b[:i+1]
		} else {
			b = nil
		}
		// how far did it get?
		done, started := -1, -1
		for _, ln := range strings.Split(string(b), "\n") {
			var m struct {
				K   string `json:"k"`
				Idx int    `json:"idx"`
			}
			if json.Unmarshal([]byte(ln), &m) != nil {
				continue
			}
			if m.K == "prog" {
				started = m.Idx
			}
			if m.K == "endprog" {
				done = m.Idx
			}
		}
		f, _ := os.OpenFile(out, os.O_APPEND|os.O_WRONLY, 0o644)
		f.Write(b)
		if started > done {
			cls := "exit"
			se := stderr.String()
			switch {
			case strings.Contains(se, "DATA RACE"):
				cls = "race"
			case strings.Contains(se, "concurrent map"):
				cls = "fatal:concurrent map access"
			case strings.Contains(se, "send on closed channel"):
				cls = "panic:send on closed channel"
			case strings.Contains(se, "close of closed channel"):
				cls = "panic:close of closed channel"
			case strings.Contains(se, "nil pointer"):
				cls = "panic:nil dereference"
			case strings.Contains(se, "panic:"):
				cls = "panic:other"
			case strings.Contains(se, "fatal error"):
				cls = "fatal:other"
			}
			if len(se) > 1500 {
				se = se[len(se)-1500:]
			}
			ln, _ := json.Marshal(J{"k": "crash", "idx": started, "cls": cls, "code": code, "text": se})
			f.Write(append(ln, '\n'))
			ln, _ = json.Marshal(J{"k": "endprog", "idx": started, "hang": []string{}, "crashed": true})
			f.Write(append(ln, '\n'))
			done = started
		} else if code != 0 && code != 3 {
			f.Close()
			fmt.Fprintf(os.Stderr, "INFRA-ERROR: stress worker exit %d: %s\n", code, stderr.String())
			return 2
		}
		f.Close()
		if code != 0 {
			bad++
		}
		if done+1 <= from && code == 0 {
			break
		}
		from = done + 1
		if code == 0 {
			break
		}
	}
	return 0
}

func runWorker(out string, n int, seed int64, from int) int {
	f, err := os.Create(out)
	if err != nil {
		return 2
	}
	defer f.Close()
	w := bufio.NewWriter(f)
	emit := func(m interface{}) {
		b, _ := json.Marshal(m)
		w.Write(b)
		w.WriteByte('\n')
		w.Flush()
	}
	for i := from; i < n; i++ {
		rnd := rand.New(rand.NewSource(seed*1000003 + int64(i)))
		p := program{ID: fmt.Sprintf("prog-%d-%d", seed, i), Seed: seed*1000003 + int64(i),
			Mode: []string{"stable", "stable", "churn", "renames"}[rnd.Intn(4)], Threads: 2 + rnd.Intn(3), Calls: 6 + rnd.Intn(10),
			Cap: []int{0, 0, 1, 16}[rnd.Intn(4)], Pace: []string{"fast", "fast", "slow", "events_only", "late"}[rnd.Intn(5)],
			Procs: []int{1, 2, 4, 16}[rnd.Intn(4)]}
		var dirty bool
		if onlyMode == "sched" {
			p.Mode, p.Cap, p.Pace, p.Threads = "sched", schedCap, []string{"fast", "slow", "stall", "late"}[rnd.Intn(4)], 2
			p.Procs = []int{1, 2, 4, 16}[rnd.Intn(4)]
			dirty = runSched(p, i, rnd, emit)
		} else if onlyMode == "longadd" && i%2 == 1 {
			p.Mode, p.Cap, p.Pace, p.Threads = "rdclose", 0, "gated", 2
			p.Procs = []int{2, 4, 16}[rnd.Intn(3)]
			dirty = runRdClose(p, i, rnd, emit)
		} else if onlyMode == "longadd" || rnd.Intn(8) == 0 {
			p.Mode, p.Cap, p.Pace, p.Threads = "longadd", 16, "fast", 3
			p.Procs = []int{2, 4, 16}[rnd.Intn(3)]
			dirty = runLongAdd(p, i, rnd, emit)
		} else if rnd.Intn(5) == 0 {
			p.Mode, p.Cap, p.Pace, p.Threads = "duel", 0, "gated", 2+rnd.Intn(3)
			p.Procs = []int{2, 4, 16}[rnd.Intn(3)]
			dirty = runDuel(p, i, rnd, emit)
		} else {
			dirty = runProgram(p, i, rnd, emit)
		}
		if dirty {
			return 3
		}
	}
	return 0
}

func runProgram(p program, idx int, rnd *rand.Rand, emit func(interface{})) (dirty bool) {
	runtime.GOMAXPROCS(p.Procs)
	root, _ := os.MkdirTemp("", "vstress-")
	root, _ = filepath.EvalSymlinks(root)
	defer os.RemoveAll(root)
	os.Chdir(root)
	defer os.Chdir("/")
	paths := []string{"p1", "p2", "p3"}
	os.Mkdir("p1", 0o755)
	os.Mkdir("p2", 0o755)
	os.WriteFile("p3", nil, 0o644)
	os.WriteFile("p1/a", nil, 0o644)
	atomic.StoreInt64(&stamp, 0)
	emit(J{"k": "prog", "idx": idx, "id": p.ID, "mode": p.Mode, "threads": p.Threads, "cap": p.Cap, "pace": p.Pace, "procs": p.Procs})

	var w *fsnotify.Watcher
	var err error
	for try := 0; try < 100; try++ {
		if p.Cap == 0 {
			w, err = fsnotify.NewWatcher()
		} else {
			w, err = fsnotify.NewBufferedWatcher(uint(p.Cap))
		}
		if err == nil {
			break
		}
		time.Sleep(100 * time.Millisecond)
	}
	if err != nil {
		emit(J{"k": "infra", "what": "NewWatcher: " + err.Error()})
		emit(J{"k": "endprog", "idx": idx, "hang": []string{}, "crashed": false})
		return false
	}

	var mu sync.Mutex
	var hist []rec
	log := func(r rec) {
		mu.Lock()
		hist = append(hist, r)
		mu.Unlock()
	}
	// plans are drawn up front (math/rand is not goroutine safe)
	type step struct{ op, path string }
	plans := make([][]step, p.Threads)
	closer := -1
	if rnd.Intn(3) > 0 {
		closer = rnd.Intn(p.Threads)
	}
	for t := range plans {
		for c := 0; c < p.Calls; c++ {
			op := []string{"add", "add", "remove", "remove", "watchlist"}[rnd.Intn(5)]
			plans[t] = append(plans[t], step{op, paths[rnd.Intn(len(paths))]})
		}
		if t == closer {
			at := rnd.Intn(len(plans[t]) + 1)
			plans[t] = append(plans[t][:at], append([]step{{"close", ""}}, plans[t][at:]...)...)
		} else if closer >= 0 && rnd.Intn(4) == 0 {
			plans[t] = append(plans[t], step{"close", ""})
		}
	}
	stop := make(chan struct{})
	var bg sync.WaitGroup
	// consumer
	bg.Add(1)
	go func() {
		defer bg.Done()
		evs, errs := w.Events, w.Errors
		if p.Pace == "late" {
			<-stop
		}
		for evs != nil || errs != nil {
			if p.Pace == "events_only" {
				select {
				case _, ok := <-evs:
					if !ok {
						evs = nil
					}
				case <-stop:
					p.Pace = "fast"
				}
				continue
			}
			select {
			case _, ok := <-evs:
				if !ok {
					evs = nil
				}
			case _, ok := <-errs:
				if !ok {
					errs = nil
				}
			}
			if p.Pace == "slow" {
				time.Sleep(50 * time.Microsecond)
			}
		}
	}()
	// file system activity
	fsdone := make(chan struct{})
	var fsw sync.WaitGroup
	for g := 0; g < 2; g++ {
		fsw.Add(1)
		go func(g int) {
			defer fsw.Done()
			i := 0
			for {
				select {
				case <-fsdone:
					return
				default:
				}
				i++
				switch p.Mode {
				case "stable":
					n := fmt.Sprintf("p%d/e%d_%d", 1+g, g, i%5)
					os.WriteFile(n, []byte("x"), 0o644)
					os.Chmod(n, 0o600)
					os.Remove(n)
				case "renames":
					a, b := fmt.Sprintf("p1/r%d_%d", g, i%3), fmt.Sprintf("p%d/s%d_%d", 1+(i%2), g, i%3)
					os.WriteFile(a, nil, 0o644)
					os.Rename(a, b)
					os.Rename(b, a)
					os.Remove(a)
				default: // churn: the watched paths themselves come and go
					st := atomic.AddInt64(&stamp, 1)
					switch i % 4 {
					case 0:
						log(rec{Stamp: st, K: "fs", T: fmt.Sprintf("f%d", g), Op: "end", Path: "p3"})
						os.Remove("p3")
						os.WriteFile("p3", nil, 0o644)
					case 1:
						log(rec{Stamp: st, K: "fs", T: fmt.Sprintf("f%d", g), Op: "end", Path: "p2"})
						os.Rename("p2", "p2x")
						os.Rename("p2x", "p2")
					case 2:
						os.WriteFile("p1/c", nil, 0o644)
						os.Remove("p1/c")
					case 3:
						log(rec{Stamp: st, K: "fs", T: fmt.Sprintf("f%d", g), Op: "end", Path: "p3"})
						os.Rename("p3", "p3y")
						os.WriteFile("p3", nil, 0o644)
						os.Remove("p3y")
					}
				}
				if i%8 == 0 {
					runtime.Gosched()
				}
			}
		}(g)
	}
	// API threads
	var api sync.WaitGroup
	inflight := make([]atomic.Value, p.Threads)
	for t := range plans {
		api.Add(1)
		go func(t int) {
			defer api.Done()
			name := fmt.Sprintf("t%d", t)
			for _, s := range plans[t] {
				inflight[t].Store(s.op)
				log(rec{Stamp: atomic.AddInt64(&stamp, 1), K: "call", T: name, Op: s.op, Path: s.path})
				r := rec{K: "ret", T: name, Op: s.op, Path: s.path}
				switch s.op {
				case "add":
					r.Res = classify(w.Add(s.path))
				case "remove":
					r.Res = classify(w.Remove("./" + s.path))
				case "watchlist":
					l := w.WatchList()
					r.Res, r.Nil = "ok", l == nil
					sort.Strings(l)
					r.WL = l
				case "close":
					r.Res = classify(w.Close())
				}
				r.Stamp = atomic.AddInt64(&stamp, 1)
				log(r)
				inflight[t].Store("")
			}
		}(t)
	}
	apidone := make(chan struct{})
	go func() { api.Wait(); close(apidone) }()
	hang := []string{}
	select {
	case <-apidone:
	case <-time.After(8 * time.Second):
		for t := range inflight {
			if op, _ := inflight[t].Load().(string); op != "" {
				hang = append(hang, op)
			}
		}
		dirty = true
	}
	close(fsdone)
	fsw.Wait()
	close(stop)
	if !dirty {
		// final, sequential: Close and the post-close behaviour
		name := "t9"
		for _, s := range []step{{"watchlist", ""}, {"close", ""}, {"add", "p1"}, {"remove", "p1"}, {"watchlist", ""}} {
			log(rec{Stamp: atomic.AddInt64(&stamp, 1), K: "call", T: name, Op: s.op, Path: s.path})
			r := rec{K: "ret", T: name, Op: s.op, Path: s.path}
			done := make(chan struct{})
			go func() {
				switch s.op {
				case "add":
					r.Res = classify(w.Add(s.path))
				case "remove":
					r.Res = classify(w.Remove(s.path))
				case "watchlist":
					l := w.WatchList()
					r.Res, r.Nil = "ok", l == nil
					sort.Strings(l)
					r.WL = l
				case "close":
					r.Res = classify(w.Close())
				}
				close(done)
			}()
			select {
			case <-done:
				r.Stamp = atomic.AddInt64(&stamp, 1)
				log(r)
			case <-time.After(5 * time.Second):
				hang = append(hang, s.op)
				dirty = true
			}
			if dirty {
				break
			}
		}
	}
	if !dirty {
		c := make(chan struct{})
		go func() { bg.Wait(); close(c) }()
		select {
		case <-c:
		case <-time.After(5 * time.Second):
			hang = append(hang, "channels_not_closed")
			dirty = true
		}
	}
	mu.Lock()
	sort.Slice(hist, func(i, j int) bool { return hist[i].Stamp < hist[j].Stamp })
	// join every call with its return (same information, made local for the trace specification)
	for i := range hist {
		if hist[i].K != "call" {
			continue
		}
		hist[i].Res = "noreturn"
		for j := i + 1; j < len(hist); j++ {
			if hist[j].K == "ret" && hist[j].T == hist[i].T {
				hist[i].Res, hist[i].WL, hist[i].Nil = hist[j].Res, hist[j].WL, hist[j].Nil
				break
			}
		}
	}
	for _, r := range hist {
		if r.WL == nil {
			r.WL = []string{}
		}
		emit(r)
	}
	mu.Unlock()
	emit(J{"k": "endprog", "idx": idx, "hang": hang, "crashed": false})
	return dirty
}

// runDuel: rounds of one Remove(p1) against one to three Add(p1) issued at the same instant on a watched
// path while the reader goroutine is parked on an event nobody receives (so that whatever the calls leave
// behind in the kernel queue is still unprocessed when they return), each round bracketed by sequential
// WatchList calls before and after the consumer has caught up.  Background goroutines call WatchList
// all the time (read-only: not part of the history).
func runDuel(p program, idx int, rnd *rand.Rand, emit func(interface{})) (dirty bool) {
	runtime.GOMAXPROCS(p.Procs)
	root, _ := os.MkdirTemp("", "vstress-")
	root, _ = filepath.EvalSymlinks(root)
	defer os.RemoveAll(root)
	os.Chdir(root)
	defer os.Chdir("/")
	os.Mkdir("p1", 0o755)
	os.Mkdir("s", 0o755)
	atomic.StoreInt64(&stamp, 0)
	emit(J{"k": "prog", "idx": idx, "id": p.ID, "mode": p.Mode, "threads": p.Threads, "cap": p.Cap, "pace": p.Pace, "procs": p.Procs})
	var w *fsnotify.Watcher
	var err error
	for try := 0; try < 100; try++ {
		if w, err = fsnotify.NewWatcher(); err == nil {
			break
		}
		time.Sleep(100 * time.Millisecond)
	}
	if err != nil {
		emit(J{"k": "infra", "what": "NewWatcher: " + err.Error()})
		emit(J{"k": "endprog", "idx": idx, "hang": []string{}, "crashed": false})
		return false
	}
	var mu sync.Mutex
	var hist []rec
	log := func(r rec) {
		mu.Lock()
		hist = append(hist, r)
		mu.Unlock()
	}
	hang := []string{}
	infra := ""
	// one recorded call; false if it did not come back
	do := func(name, op, path string) bool {
		log(rec{Stamp: atomic.AddInt64(&stamp, 1), K: "call", T: name, Op: op, Path: path})
		r := rec{K: "ret", T: name, Op: op, Path: path}
		done := make(chan struct{})
		go func() {
			switch op {
			case "add":
				r.Res = classify(w.Add(path))
			case "remove":
				r.Res = classify(w.Remove(path))
			case "watchlist":
				l := w.WatchList()
				r.Res, r.Nil = "ok", l == nil
				sort.Strings(l)
				r.WL = l
			case "close":
				r.Res = classify(w.Close())
			}
			close(done)
		}()
		select {
		case <-done:
			r.Stamp = atomic.AddInt64(&stamp, 1)
			log(r)
			return true
		case <-time.After(8 * time.Second):
			hang = append(hang, op)
			return false
		}
	}
	// the consumer reads until the event for name shows up
	catchUp := func(name string) bool {
		os.WriteFile(name, nil, 0o644)
		tm := time.NewTimer(8 * time.Second)
		defer tm.Stop()
		for {
			select {
			case e, ok := <-w.Events:
				if !ok {
					infra = "Events closed"
					return false
				}
				if e.Name == name {
					os.Remove(name)
					return true
				}
			case <-w.Errors:
			case <-tm.C:
				infra = "consumer did not see " + name
				return false
			}
		}
	}
	var stop atomic.Bool
	var bg sync.WaitGroup
	for i := 0; i < rnd.Intn(7); i++ {
		bg.Add(1)
		go func() {
			defer bg.Done()
			for !stop.Load() {
				w.WatchList()
			}
		}()
	}
	adders := p.Threads - 1
	rounds := 20 + rnd.Intn(30)
	ok := do("t9", "add", "s")
	for r := 0; ok && r < rounds; r++ {
		if ok = do("t9", "add", "p1"); !ok {
			break
		}
		os.WriteFile(fmt.Sprintf("s/park-%d", r), nil, 0o644) // parks the reader: nobody is receiving
		var wg sync.WaitGroup
		start := make(chan struct{})
		res := make([]bool, 1+adders)
		for t := 0; t <= adders; t++ {
			wg.Add(1)
			go func(t int) {
				defer wg.Done()
				<-start
				if t == 0 {
					res[t] = do("t0", "remove", "p1")
				} else {
					res[t] = do(fmt.Sprintf("t%d", t), "add", "p1")
				}
			}(t)
		}
		close(start)
		wg.Wait()
		for _, b := range res {
			ok = ok && b
		}
		ok = ok && do("t9", "watchlist", "")
		if !ok {
			break
		}
		if !catchUp(fmt.Sprintf("s/flag-%d", r)) {
			break
		}
		os.Remove(fmt.Sprintf("s/park-%d", r))
		ok = do("t9", "watchlist", "") && do("t9", "remove", "p1")
		if !ok || !catchUp(fmt.Sprintf("s/flag2-%d", r)) {
			break
		}
	}
	stop.Store(true)
	if ok && infra == "" {
		for _, s := range []string{"watchlist", "close", "add", "remove", "watchlist"} {
			if !do("t9", s, map[string]string{"add": "p1", "remove": "p1"}[s]) {
				ok = false
				break
			}
		}
	}
	dirty = !ok
	if !dirty {
		bg.Wait()
	}
	mu.Lock()
	sort.Slice(hist, func(i, j int) bool { return hist[i].Stamp < hist[j].Stamp })
	for i := range hist {
		if hist[i].K != "call" {
			continue
		}
		hist[i].Res = "noreturn"
		for j := i + 1; j < len(hist); j++ {
			if hist[j].K == "ret" && hist[j].T == hist[i].T {
				hist[i].Res, hist[i].WL, hist[i].Nil = hist[j].Res, hist[j].WL, hist[j].Nil
				break
			}
		}
	}
	for _, r := range hist {
		if r.WL == nil {
			r.WL = []string{}
		}
		emit(r)
	}
	mu.Unlock()
	if infra != "" {
		emit(J{"k": "infra", "what": infra})
	}
	emit(J{"k": "endprog", "idx": idx, "hang": hang, "crashed": false})
	return dirty
}

// runSched: a program inside the universe of the scheduling model (spec/InotifySched.tla): ONE watched file, two API
// goroutines (Add / Remove / WatchList / Close on it), one file system goroutine (chmod, then perhaps one rename-away
// or delete, chmod of the moved file), an unbuffered Watcher and a consumer that polls both channels at some pace.
// Everything observable is logged with the shared atomic stamp - calls and returns, file system operations and
// receives as intervals (begin / end) - and spec/SchedTrace.tla lets TLC search for an internal schedule of the
// model (reader, lock, critical sections, kernel queue) that explains the log.
func runSched(p program, idx int, rnd *rand.Rand, emit func(interface{})) (dirty bool) {
	runtime.GOMAXPROCS(p.Procs)
	root, _ := os.MkdirTemp("", "vstress-")
	root, _ = filepath.EvalSymlinks(root)
	defer os.RemoveAll(root)
	os.Chdir(root)
	defer os.Chdir("/")
	os.WriteFile("p1", nil, 0o644)
	atomic.StoreInt64(&stamp, 0)
	emit(J{"k": "prog", "idx": idx, "id": p.ID, "mode": p.Mode, "threads": p.Threads, "cap": p.Cap, "pace": p.Pace, "procs": p.Procs})
	var w *fsnotify.Watcher
	var err error
	for try := 0; try < 100; try++ {
		if p.Cap == 0 {
			w, err = fsnotify.NewWatcher()
		} else {
			w, err = fsnotify.NewBufferedWatcher(uint(p.Cap))
		}
		if err == nil {
			break
		}
		time.Sleep(100 * time.Millisecond)
	}
	if err != nil {
		emit(J{"k": "infra", "what": "NewWatcher: " + err.Error()})
		emit(J{"k": "endprog", "idx": idx, "hang": []string{}, "crashed": false})
		return false
	}
	type ev struct {
		Stamp int64  `json:"stamp"`
		K     string `json:"k"` // call ret fsb fse rvb rve
		T     string `json:"t"`
		Op    string `json:"op"`
		Res   string `json:"res"`
	}
	var mu sync.Mutex
	var hist []ev
	log := func(e ev) {
		mu.Lock()
		hist = append(hist, e)
		mu.Unlock()
	}
	st := func() int64 { return atomic.AddInt64(&stamp, 1) }
	// plans
	type step struct{ op string }
	nthr := 2 + rnd.Intn(2) // two or three API goroutines
	plans := make([][]step, nthr)
	closer := -1
	if rnd.Intn(2) == 0 {
		closer = rnd.Intn(nthr)
	}
	for t := range plans {
		for c := 0; c < 3+rnd.Intn(4); c++ {
			plans[t] = append(plans[t], step{[]string{"add", "add", "remove", "watchlist"}[rnd.Intn(4)]})
		}
		if t == closer {
			at := rnd.Intn(len(plans[t]) + 1)
			plans[t] = append(plans[t][:at], append([]step{{"close"}}, plans[t][at:]...)...)
		}
	}
	fsplan := []string{}
	for c := 0; c < rnd.Intn(4); c++ {
		fsplan = append(fsplan, "chmod")
	}
	switch rnd.Intn(3) {
	case 0:
		fsplan = append(fsplan, "move")
		for c := 0; c < rnd.Intn(3); c++ {
			fsplan = append(fsplan, "chmod")
		}
		if rnd.Intn(2) == 0 {
			fsplan = append(fsplan, "delete")
		}
	case 1:
		fsplan = append(fsplan, "delete")
	}
	stop := make(chan struct{})
	var bg sync.WaitGroup
	// consumer: polls (a rendezvous succeeds only when the reader is parked in its send)
	bg.Add(1)
	go func() {
		defer bg.Done()
		evs, errs := w.Events, w.Errors
		if p.Pace == "late" {
			<-stop
		}
		for evs != nil || errs != nil {
			b := st()
			got := ev{K: "rve", T: "c"}
			select {
			case e, ok := <-evs:
				switch {
				case !ok:
					evs = nil
					got.Op, got.Res = "ev", "closed"
				case e.Has(fsnotify.Remove):
					got.Op, got.Res = "ev", "remove"
				case e.Has(fsnotify.Rename):
					got.Op, got.Res = "ev", "rename"
				case e.Has(fsnotify.Chmod):
					got.Op, got.Res = "ev", "chmod"
				default:
					got.Op, got.Res = "ev", "other:"+e.Op.String()
				}
			case e, ok := <-errs:
				if !ok {
					errs = nil
					got.Op, got.Res = "err", "closed"
				} else {
					got.Op, got.Res = "err", classify(e)
				}
			default:
				select {
				case <-stop:
					if p.Pace == "stall" {
						p.Pace = "fast"
					}
				default:
				}
				if p.Pace == "stall" {
					time.Sleep(200 * time.Microsecond)
				} else {
					runtime.Gosched()
				}
				continue
			}
			log(ev{Stamp: b, K: "rvb", T: "c"})
			got.Stamp = st()
			log(got)
			if p.Pace == "slow" {
				time.Sleep(50 * time.Microsecond)
			}
		}
	}()
	if p.Pace == "stall" {
		// the consumer exists but does not look for a while
	}
	// file system
	var fsw sync.WaitGroup
	fsw.Add(1)
	go func() {
		defer fsw.Done()
		cur := "p1"
		mode := os.FileMode(0o600)
		for _, op := range fsplan {
			time.Sleep(time.Duration(rnd.Intn(200)) * time.Microsecond)
			log(ev{Stamp: st(), K: "fsb", T: "f", Op: op})
			switch op {
			case "chmod":
				os.Chmod(cur, mode)
				mode ^= 0o044
			case "move":
				os.Rename("p1", "moved")
				cur = "moved"
			case "delete":
				os.Remove(cur)
			}
			log(ev{Stamp: st(), K: "fse", T: "f", Op: op})
		}
	}()
	// API goroutines
	var api sync.WaitGroup
	inflight := make([]atomic.Value, nthr)
	for t := range plans {
		api.Add(1)
		go func(t int) {
			defer api.Done()
			name := fmt.Sprintf("t%d", t)
			for _, s := range plans[t] {
				inflight[t].Store(s.op)
				log(ev{Stamp: st(), K: "call", T: name, Op: s.op})
				r := ev{K: "ret", T: name, Op: s.op}
				switch s.op {
				case "add":
					r.Res = classify(w.Add("p1"))
				case "remove":
					r.Res = classify(w.Remove("p1"))
				case "watchlist":
					l := w.WatchList()
					switch {
					case l == nil:
						r.Res = "nil"
					case len(l) == 0:
						r.Res = "empty"
					case len(l) == 1 && l[0] == "p1":
						r.Res = "listed"
					default:
						r.Res = "other:" + strings.Join(l, ",")
					}
				case "close":
					r.Res = classify(w.Close())
				}
				r.Stamp = st()
				log(r)
				inflight[t].Store("")
			}
		}(t)
	}
	apidone := make(chan struct{})
	go func() { api.Wait(); fsw.Wait(); close(apidone) }()
	hang := []string{}
	select {
	case <-apidone:
	case <-time.After(8 * time.Second):
		for t := range inflight {
			if op, _ := inflight[t].Load().(string); op != "" {
				hang = append(hang, op)
			}
		}
		dirty = true
	}
	close(stop)
	if !dirty {
		// let the consumer catch up, then Close (if nobody did) and see the channels close
		time.Sleep(2 * time.Millisecond)
		log(ev{Stamp: st(), K: "call", T: "t9", Op: "close"})
		done := make(chan string, 1)
		go func() { done <- classify(w.Close()) }()
		select {
		case res := <-done:
			log(ev{Stamp: st(), K: "ret", T: "t9", Op: "close", Res: res})
		case <-time.After(5 * time.Second):
			hang = append(hang, "close")
			dirty = true
		}
	}
	if !dirty {
		c := make(chan struct{})
		go func() { bg.Wait(); close(c) }()
		select {
		case <-c:
		case <-time.After(5 * time.Second):
			hang = append(hang, "channels_not_closed")
			dirty = true
		}
	}
	mu.Lock()
	sort.Slice(hist, func(i, j int) bool { return hist[i].Stamp < hist[j].Stamp })
	for _, e := range hist {
		emit(e)
	}
	mu.Unlock()
	emit(J{"k": "endprog", "idx": idx, "hang": hang, "crashed": false})
	return dirty
}

// runLongAdd: Close while an Add is at work for a long time (a recursive Add over a tree of directories holds the
// mutex for the whole walk).  Close must wait for it or make it fail with ErrClosed - never let it go on using the
// descriptor, whose number the next Watcher of the process may get: a fresh Watcher created right after Close must
// hold no kernel watch.  The call/return history goes to LinTrace like every other program.
func runLongAdd(p program, idx int, rnd *rand.Rand, emit func(interface{})) (dirty bool) {
	runtime.GOMAXPROCS(p.Procs)
	root, _ := os.MkdirTemp("", "vstress-")
	root, _ = filepath.EvalSymlinks(root)
	defer os.RemoveAll(root)
	os.Chdir(root)
	defer os.Chdir("/")
	for i := 0; i < 120; i++ {
		os.MkdirAll(fmt.Sprintf("p1/d%03d/s", i), 0o755)
	}
	os.Mkdir("p2", 0o755)
	atomic.StoreInt64(&stamp, 0)
	emit(J{"k": "prog", "idx": idx, "id": p.ID, "mode": p.Mode, "threads": p.Threads, "cap": p.Cap, "pace": p.Pace, "procs": p.Procs})
	fsnotify.VerifSetRecurse(true)
	defer fsnotify.VerifSetRecurse(false)
	w, err := fsnotify.NewBufferedWatcher(uint(p.Cap))
	if err != nil {
		emit(J{"k": "infra", "what": "NewWatcher: " + err.Error()})
		emit(J{"k": "endprog", "idx": idx, "hang": []string{}, "crashed": false})
		return false
	}
	var mu sync.Mutex
	var hist []rec
	log := func(r rec) {
		mu.Lock()
		hist = append(hist, r)
		mu.Unlock()
	}
	stop := make(chan struct{})
	var bg sync.WaitGroup
	bg.Add(1)
	go func() { // consumer
		defer bg.Done()
		evs, errs := w.Events, w.Errors
		for evs != nil || errs != nil {
			select {
			case _, ok := <-evs:
				if !ok {
					evs = nil
				}
			case _, ok := <-errs:
				if !ok {
					errs = nil
				}
			}
		}
	}()
	_ = stop
	call := func(name, op, path, arg string) {
		log(rec{Stamp: atomic.AddInt64(&stamp, 1), K: "call", T: name, Op: op, Path: path})
		r := rec{K: "ret", T: name, Op: op, Path: path}
		switch op {
		case "add":
			r.Res = classify(w.Add(arg))
		case "remove":
			r.Res = classify(w.Remove(arg))
		case "watchlist":
			l := w.WatchList()
			r.Res, r.Nil = "ok", l == nil
			keep := []string{}
			for _, x := range l { // the directories below p1 are internal to the recursive watch: not part of the sequential specification
				if !strings.HasPrefix(x, "p1/") {
					keep = append(keep, x)
				}
			}
			sort.Strings(keep)
			r.WL = keep
		case "close":
			r.Res = classify(w.Close())
		}
		r.Stamp = atomic.AddInt64(&stamp, 1)
		log(r)
	}
	delay := time.Duration(rnd.Intn(1500)) * time.Microsecond
	var api sync.WaitGroup
	var fresh *fsnotify.Watcher
	api.Add(3)
	go func() { defer api.Done(); call("t0", "add", "p1", "p1/...") }()
	go func() {
		defer api.Done()
		time.Sleep(delay)
		call("t1", "close", "", "")
		fresh, _ = fsnotify.NewWatcher() // gets the lowest free descriptor number: the one Close just released
	}()
	go func() {
		defer api.Done()
		call("t2", "add", "p2", "p2")
		call("t2", "watchlist", "", "")
		call("t2", "remove", "p2", "p2")
	}()
	done := make(chan struct{})
	go func() { api.Wait(); close(done) }()
	hang := []string{}
	select {
	case <-done:
	case <-time.After(15 * time.Second):
		hang = append(hang, "close_or_add")
		dirty = true
	}
	if !dirty {
		c := make(chan struct{})
		go func() { bg.Wait(); close(c) }()
		select {
		case <-c:
		case <-time.After(5 * time.Second):
			hang = append(hang, "channels_not_closed")
			dirty = true
		}
	}
	if fresh != nil {
		if n := countMarks(fsnotify.VerifInotifyFd(fresh)); n > 0 {
			hang = append(hang, "foreign_kernel_watches_in_fresh_watcher")
		}
		fresh.Close()
	}
	mu.Lock()
	sort.Slice(hist, func(i, j int) bool { return hist[i].Stamp < hist[j].Stamp })
	for i := range hist {
		if hist[i].K != "call" {
			continue
		}
		hist[i].Res = "noreturn"
		for j := i + 1; j < len(hist); j++ {
			if hist[j].K == "ret" && hist[j].T == hist[i].T {
				hist[i].Res, hist[i].WL, hist[i].Nil = hist[j].Res, hist[j].WL, hist[j].Nil
				break
			}
		}
	}
	for _, r := range hist {
		if r.WL == nil {
			r.WL = []string{}
		}
		emit(r)
	}
	mu.Unlock()
	emit(J{"k": "endprog", "idx": idx, "hang": hang, "crashed": false})
	return dirty
}

// runRdClose: Close meets a reader that still has a record to handle.  Two watched files; one is changed, the other renamed,
// nobody receiving: the reader has read both records and is parked sending the first event.  A long-running recursive Add
// takes the mutex, Close queues up behind it, then the consumer starts: the reader moves on to the IN_MOVE_SELF record
// (whose handling calls inotify_rm_watch) and queues up behind Close.  Whatever it does then it must not touch the
// descriptor Close has closed: any value on Errors is reported.
func runRdClose(p program, idx int, rnd *rand.Rand, emit func(interface{})) (dirty bool) {
	runtime.GOMAXPROCS(p.Procs)
	root, _ := os.MkdirTemp("", "vstress-")
	root, _ = filepath.EvalSymlinks(root)
	defer os.RemoveAll(root)
	os.Chdir(root)
	defer os.Chdir("/")
	for i := 0; i < 200; i++ {
		os.MkdirAll(fmt.Sprintf("p1/d%03d/s", i), 0o755)
	}
	os.Mkdir("q", 0o755)
	os.WriteFile("q/f", nil, 0o644)
	os.WriteFile("q/g", nil, 0o644)
	atomic.StoreInt64(&stamp, 0)
	emit(J{"k": "prog", "idx": idx, "id": p.ID, "mode": p.Mode, "threads": p.Threads, "cap": p.Cap, "pace": p.Pace, "procs": p.Procs})
	fsnotify.VerifSetRecurse(true)
	defer fsnotify.VerifSetRecurse(false)
	w, err := fsnotify.NewWatcher()
	if err != nil {
		emit(J{"k": "infra", "what": "NewWatcher: " + err.Error()})
		emit(J{"k": "endprog", "idx": idx, "hang": []string{}, "crashed": false})
		return false
	}
	hang := []string{}
	w.Add("q/f")
	w.Add("q/g")
	os.Chmod("q/g", 0o600)
	os.Rename("q/f", "q/f2")
	time.Sleep(2 * time.Millisecond)
	var api sync.WaitGroup
	api.Add(2)
	go func() { defer api.Done(); w.Add("p1/...") }()
	for i := 0; i < 20000; i++ { // until the Add holds the mutex
		if _, _, locked := fsnotify.VerifInotifyTables(w); locked {
			break
		}
		runtime.Gosched()
	}
	go func() { defer api.Done(); w.Close() }()
	time.Sleep(time.Duration(50+rnd.Intn(200)) * time.Microsecond)
	var emu sync.Mutex
	var bg sync.WaitGroup
	bg.Add(1)
	go func() { // consumer
		defer bg.Done()
		evs, errs := w.Events, w.Errors
		for evs != nil || errs != nil {
			select {
			case _, ok := <-evs:
				if !ok {
					evs = nil
				}
			case e, ok := <-errs:
				if !ok {
					errs = nil
				} else {
					emu.Lock()
					hang = append(hang, "error_on_Errors:"+classify(e))
					emu.Unlock()
				}
			}
		}
	}()
	done := make(chan struct{})
	go func() { api.Wait(); bg.Wait(); close(done) }()
	select {
	case <-done:
	case <-time.After(15 * time.Second):
		emu.Lock()
		hang = append(hang, "close_or_add")
		emu.Unlock()
		dirty = true
	}
	emu.Lock()
	emit(J{"k": "endprog", "idx": idx, "hang": append([]string{}, hang...), "crashed": false})
	emu.Unlock()
	return dirty
}

// countMarks: the number of kernel watches of an inotify descriptor (/proc/self/fdinfo)
func countMarks(fd int) int {
	b, err := os.ReadFile(fmt.Sprintf("/proc/self/fdinfo/%d", fd))
	if err != nil {
		return 0
	}
	return strings.Count(string(b), "inotify wd:")
}

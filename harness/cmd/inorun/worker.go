package main

import (
	"bufio"
	"encoding/hex"
	"encoding/json"
	"errors"
	"fmt"
	"hash/fnv"
	"os"
	"os/exec"
	"path/filepath"
	"runtime"
	"strconv"
	"strings"
	"sync"
	"syscall"
	"time"
	"unsafe"

	"github.com/fsnotify/fsnotify"
)

type J = map[string]interface{}

type watcher struct {
	W         *fsnotify.Watcher
	fd        int
	gids      map[int]bool // background goroutines created by NewWatcher
	evClosed  bool
	errClosed bool
	closed    bool // Close was called (the descriptor number may be reused from now on)
	reqCap    int
}

type pendingCall struct {
	done chan J
	op   string
	w    string
}

type scen struct {
	sc       Scenario
	root     string
	out      *bufio.Writer
	names    *names
	sh       *shadow
	ws       map[string]*watcher
	inoTok   map[uint64]string // inode number -> token
	nIno     int
	fds      map[string]*os.File
	calls    map[string]*pendingCall
	dirty    bool // stuck goroutines left behind: the worker must be restarted
	base     resources
	chmodT   map[string]bool
	children []*exec.Cmd // started by "spawn" steps
}

type resources struct {
	ifds int
	gor  int
}

var blockWait = 2 * time.Second

func runWorker(in, out, tmp string) int {
	scs, err := readScenarios(in)
	if err != nil {
		fmt.Fprintln(os.Stderr, "INFRA-ERROR:", err)
		return 2
	}
	if v := os.Getenv("VERIF_BLOCKWAIT_MS"); v != "" {
		if n, err := strconv.Atoi(v); err == nil {
			blockWait = time.Duration(n) * time.Millisecond
		}
	}
	of, err := os.Create(out)
	if err != nil {
		fmt.Fprintln(os.Stderr, "INFRA-ERROR:", err)
		return 2
	}
	defer of.Close()
	w := bufio.NewWriter(of)
	for _, s := range scs {
		dirty, err := runScenario(s, w, tmp)
		w.Flush()
		if err != nil {
			fmt.Fprintln(os.Stderr, "INFRA-ERROR: scenario", s.ID, err)
			return 2
		}
		if dirty {
			return 3 // restart me on the remaining scenarios
		}
	}
	return 0
}

func (s *scen) emit(m J) {
	b, err := json.Marshal(m)
	if err != nil {
		panic(err)
	}
	s.out.Write(b)
	s.out.WriteByte('\n')
	s.out.Flush()
}

func readInt(path string) int {
	b, err := os.ReadFile(path)
	if err != nil {
		return -1
	}
	n, _ := strconv.Atoi(strings.TrimSpace(string(b)))
	return n
}

func runScenario(sc Scenario, out *bufio.Writer, tmp string) (dirty bool, err error) {
	root, err := os.MkdirTemp(tmp, "vs-")
	if err != nil {
		return false, err
	}
	root, err = filepath.EvalSymlinks(root)
	if err != nil {
		return false, err
	}
	defer os.RemoveAll(root)
	if err := os.Chdir(root); err != nil {
		return false, err
	}
	defer os.Chdir("/")
	s := &scen{sc: sc, root: root, out: out, ws: map[string]*watcher{}, inoTok: map[uint64]string{},
		fds: map[string]*os.File{}, calls: map[string]*pendingCall{}, chmodT: map[string]bool{}}
	s.names = newNames(sc.Seed, sc.Tbl)
	s.sh, err = newShadow(s)
	if err != nil {
		// Environment busy (instance limit): retry a few times.
		for i := 0; i < 50 && err != nil; i++ {
			time.Sleep(100 * time.Millisecond)
			s.sh, err = newShadow(s)
		}
		if err != nil {
			return false, fmt.Errorf("shadow inotify_init: %v", err)
		}
	}
	defer s.sh.close()
	// The root directory is object i0.
	s.newIno(root)
	s.sh.add(root, "i0")
	fsnotify.VerifSetRecurse(false)
	s.base = s.resources()
	s.emit(J{"k": "reset", "id": sc.ID, "seed": sc.Seed, "tbl": sc.Tbl, "fam": sc.Fam,
		"maxq": readInt("/proc/sys/fs/inotify/max_queued_events"), "defcap": fsnotify.VerifDefaultBufferSize()})
	for i := range sc.Steps {
		s.exec(&sc.Steps[i])
	}
	for _, c := range s.children {
		c.Process.Kill()
		c.Wait()
	}
	// Leave nothing behind: close watchers that the scenario left open.
	for _, f := range s.fds {
		f.Close()
	}
	for _, w := range s.ws {
		if w.W != nil {
			w := w
			done := make(chan struct{})
			go func() { w.W.Close(); close(done) }()
			select {
			case <-done:
			case <-time.After(500 * time.Millisecond):
				s.dirty = true
			}
		}
	}
	if len(s.calls) > 0 {
		s.dirty = true
	}
	if !s.dirty {
		// Every Watcher of the scenario has returned from Close. A notification descriptor that is still open now was
		// leaked by the library (the obs lines of the scenario carry the counts, the verdict is the trace specification's);
		// it must not pile up in this process: the instance limit is shared by everything that runs on the machine.
		if n := reapInotify(s.sh.fd); n > 0 {
			fmt.Fprintf(os.Stderr, "note: scenario %s left %d inotify descriptors open; closed by the driver\n", sc.ID, n)
		}
	}
	s.emit(J{"k": "end", "id": sc.ID, "dirty": s.dirty})
	return s.dirty, nil
}

// ---------------------------------------------------------------- names

type names struct {
	seed int64
	tbl  int
	t2r  map[string]string
	r2t  map[string]string
}

func newNames(seed int64, tbl int) *names {
	return &names{seed: seed, tbl: tbl, t2r: map[string]string{}, r2t: map[string]string{}}
}

var nameLens = []int{1, 2, 15, 16, 17, 31, 32, 33, 47, 48, 49, 63, 64, 65, 127, 128, 129, 254, 255, 7, 100, 200}
var fillers = []string{"a", "b c", "é", "日本", "x😀", "-_.", " ", "ü~"}
var prefixes = []string{"", ".", "-", " ", "..", "--", "é", "#"}

func hash(seed int64, s string) uint64 {
	h := fnv.New64a()
	fmt.Fprintf(h, "%d/%s", seed, s)
	return h.Sum64()
}

func (n *names) real(tok string) string {
	if tok == "" || tok == "." || tok == ".." {
		return tok
	}
	if r, ok := n.t2r[tok]; ok {
		return r
	}
	var r string
	switch {
	case tok == "LONG":
		r = strings.Repeat("L", 256)
	case strings.HasPrefix(tok, "NL") && len(tok) == 5: // NL240 ... NL255: a name of exactly that many bytes
		k, _ := strconv.Atoi(tok[2:])
		r = tok + strings.Repeat("n", k-len(tok))
	case strings.HasPrefix(tok, "BS"):
		r = tok + "\\..." // an ordinary name on Linux that happens to end in \...
	case n.tbl == 0:
		r = tok
	default:
		h := hash(n.seed+int64(n.tbl)*7919, tok)
		for try := 0; ; try++ {
			L := nameLens[int((h+uint64(try))%uint64(len(nameLens)))]
			if strings.HasPrefix(tok, "x") && n.tbl%2 == 1 {
				// burst names: keep them short-ish so that many fit a read, but vary the padding class
				L = 1 + int((h+uint64(try))%40)
			}
			pre := prefixes[int((h>>8)%uint64(len(prefixes)))]
			fil := fillers[int((h>>16)%uint64(len(fillers)))]
			r = buildName(pre, tok, fil, L, h+uint64(try))
			if r == "" || r == "." || r == ".." {
				continue
			}
			if _, dup := n.r2t[r]; !dup {
				break
			}
		}
	}
	n.t2r[tok] = r
	n.r2t[r] = tok
	return r
}

// buildName makes a name of exactly L bytes when possible.
func buildName(pre, tok, fil string, L int, h uint64) string {
	base := pre + tok
	if len(base) > L {
		// very short names: derive from the hash, printable and unusual
		const pool = "abcdefghijklmnopqrstuvwxyzABCDEFGHIJKLMNOPQRSTUVWXYZ0123456789_-+=@%~, "
		b := make([]byte, L)
		for i := range b {
			b[i] = pool[int((h>>(uint(i)*6))%uint64(len(pool)))]
		}
		return string(b)
	}
	for len(base)+len(fil) <= L {
		base += fil
	}
	for len(base) < L {
		base += "z"
	}
	return base
}

func (n *names) tok(real string) string {
	if t, ok := n.r2t[real]; ok {
		return t
	}
	if real == "." || real == ".." {
		return real
	}
	if real == "" {
		return "?"
	}
	h := hex.EncodeToString([]byte(real))
	if len(h) > 48 {
		h = h[:48] + "+"
	}
	return "?" + h
}

// render turns an argument (token components incl. "", ".", "..") into the string passed to the API.
func (s *scen) render(a *Arg) string {
	if a.Raw != "" {
		return a.Raw
	}
	parts := make([]string, len(a.C))
	for i, c := range a.C {
		parts[i] = s.names.real(c)
	}
	p := strings.Join(parts, "/")
	if a.Abs {
		return s.root + "/" + p
	}
	if p == "" {
		return "."
	}
	return p
}

// fsPath is the real path of a token path relative to the root (always absolute; filesystem steps are not subject to spelling).
func (s *scen) fsPath(p []string) string {
	parts := make([]string, 0, len(p)+1)
	parts = append(parts, s.root)
	for _, c := range p {
		parts = append(parts, s.names.real(c))
	}
	return strings.Join(parts, "/")
}

// tokPath maps a name that came back from the library to tokens.
func (s *scen) tokPath(name string) []string {
	var out []string
	rest := name
	switch {
	case name == "/": // the file system root itself, watched as such (token FSROOT; "/" stands for the scenario's own root)
		return []string{"FSROOT"}
	case strings.HasPrefix(name, "//"):
		return []string{"FSROOT", s.names.tok(name[2:])}
	case name == s.root:
		return []string{"/"}
	case strings.HasPrefix(name, s.root+"/"):
		out = append(out, "/")
		rest = name[len(s.root)+1:]
	case strings.HasPrefix(name, "/"):
		return []string{s.names.tok(name)}
	}
	if rest == "" {
		return append(out, "?")
	}
	for _, c := range strings.Split(rest, "/") {
		out = append(out, s.names.tok(c))
	}
	return out
}

// ---------------------------------------------------------------- shadow instance

type shadow struct {
	s      *scen
	fd     int
	wd2ino map[int32]string
	buf    []byte
	extra  uint32
}

type rec struct {
	Ino string `json:"ino"`
	M   uint32 `json:"m"`
	N   string `json:"n"`
	Ck  uint32 `json:"ck"`
}

const shadowMask = 0xfc6 // IN_MODIFY|ATTRIB|MOVED_FROM|MOVED_TO|CREATE|DELETE|DELETE_SELF|MOVE_SELF

func newShadow(s *scen) (*shadow, error) {
	fd, err := syscall.InotifyInit1(syscall.IN_CLOEXEC | syscall.IN_NONBLOCK)
	if err != nil {
		return nil, err
	}
	return &shadow{s: s, fd: fd, wd2ino: map[int32]string{}, buf: make([]byte, 1<<20)}, nil
}

func (sh *shadow) close() { syscall.Close(sh.fd) }

func (sh *shadow) add(path, ino string) {
	wd, err := syscall.InotifyAddWatch(sh.fd, path, shadowMask|sh.extra|syscall.IN_DONT_FOLLOW)
	if err != nil {
		return
	}
	sh.wd2ino[int32(wd)] = ino
}

func (sh *shadow) drain() []rec {
	recs := []rec{}
	for {
		n, err := syscall.Read(sh.fd, sh.buf)
		if n <= 0 || err != nil {
			return recs
		}
		off := 0
		for off+syscall.SizeofInotifyEvent <= n {
			ev := (*syscall.InotifyEvent)(unsafe.Pointer(&sh.buf[off]))
			nm := ""
			if ev.Len > 0 {
				b := sh.buf[off+syscall.SizeofInotifyEvent : off+syscall.SizeofInotifyEvent+int(ev.Len)]
				nm = strings.TrimRight(string(b), "\x00")
			}
			ino, ok := sh.wd2ino[ev.Wd]
			if !ok {
				ino = "?"
			}
			if ev.Mask&syscall.IN_Q_OVERFLOW != 0 {
				ino = "overflow"
			}
			tok := ""
			if nm != "" {
				tok = sh.s.names.tok(nm)
			}
			if ev.Mask&syscall.IN_IGNORED != 0 {
				delete(sh.wd2ino, ev.Wd)
			}
			recs = append(recs, rec{Ino: ino, M: ev.Mask, N: tok, Ck: ev.Cookie})
			off += syscall.SizeofInotifyEvent + int(ev.Len)
		}
	}
}

// ---------------------------------------------------------------- inode tokens

func inoNum(path string, follow bool) (uint64, string, string) {
	var st syscall.Stat_t
	var err error
	if follow {
		err = syscall.Stat(path, &st)
	} else {
		err = syscall.Lstat(path, &st)
	}
	if err != nil {
		return 0, "", errnoName(err)
	}
	kind := "file"
	switch st.Mode & syscall.S_IFMT {
	case syscall.S_IFDIR:
		kind = "dir"
	case syscall.S_IFLNK:
		kind = "symlink"
	case syscall.S_IFIFO:
		kind = "fifo"
	}
	return st.Ino, kind, ""
}

// newIno registers the object at path (not following links) as a new inode token.
func (s *scen) newIno(path string) string {
	n, _, e := inoNum(path, false)
	if e != "" {
		return ""
	}
	tok := "i" + strconv.Itoa(s.nIno)
	s.nIno++
	s.inoTok[n] = tok
	return tok
}

func (s *scen) inoOf(path string, follow bool) (tok, kind, errc string) {
	n, kind, e := inoNum(path, follow)
	if e != "" {
		return "", "", e
	}
	t, ok := s.inoTok[n]
	if !ok {
		return "?", kind, ""
	}
	return t, kind, ""
}

var errnoNames = map[syscall.Errno]string{
	syscall.ENOENT: "ENOENT", syscall.ENOTDIR: "ENOTDIR", syscall.ELOOP: "ELOOP", syscall.ENAMETOOLONG: "ENAMETOOLONG",
	syscall.EEXIST: "EEXIST", syscall.EINVAL: "EINVAL", syscall.EBADF: "EBADF", syscall.EMFILE: "EMFILE",
	syscall.ENOSPC: "ENOSPC", syscall.EACCES: "EACCES", syscall.ENOTEMPTY: "ENOTEMPTY", syscall.EISDIR: "EISDIR",
	syscall.EPERM: "EPERM", syscall.EXDEV: "EXDEV", syscall.ENFILE: "ENFILE", syscall.EAGAIN: "EAGAIN",
}

func errnoName(err error) string {
	var en syscall.Errno
	if errors.As(err, &en) {
		if n, ok := errnoNames[en]; ok {
			return n
		}
		return "E" + strconv.Itoa(int(en))
	}
	return "other"
}

func classify(err error) string {
	switch {
	case err == nil:
		return "ok"
	case errors.Is(err, fsnotify.ErrClosed):
		return "ErrClosed"
	case errors.Is(err, fsnotify.ErrNonExistentWatch):
		return "ErrNonExistentWatch"
	case errors.Is(err, fsnotify.ErrEventOverflow):
		return "overflow"
	}
	var en syscall.Errno
	if errors.As(err, &en) {
		return "errno:" + errnoName(err)
	}
	t := err.Error()
	if len(t) > 60 {
		t = t[:60]
	}
	return "other:" + strings.ToValidUTF8(t, "?")
}

// ---------------------------------------------------------------- goroutines, quiescence

type gor struct {
	id    int
	state string
	lib   bool // has fsnotify frames
	drv   bool // has driver (main.) frames
}

var stackBuf = make([]byte, 1<<20)

func goroutines() []gor {
	for {
		n := runtime.Stack(stackBuf, true)
		if n < len(stackBuf) {
			return parseStacks(string(stackBuf[:n]))
		}
		stackBuf = make([]byte, 2*len(stackBuf))
	}
}

func parseStacks(s string) []gor {
	var out []gor
	for _, blk := range strings.Split(s, "\n\n") {
		if !strings.HasPrefix(blk, "goroutine ") {
			continue
		}
		nl := strings.IndexByte(blk, '\n')
		hdr := blk
		body := ""
		if nl >= 0 {
			hdr, body = blk[:nl], blk[nl+1:]
		}
		var g gor
		rest := hdr[len("goroutine "):]
		sp := strings.IndexByte(rest, ' ')
		if sp < 0 {
			continue
		}
		g.id, _ = strconv.Atoi(rest[:sp])
		lb, rb := strings.IndexByte(rest, '['), strings.LastIndexByte(rest, ']')
		if lb >= 0 && rb > lb {
			st := rest[lb+1 : rb]
			if c := strings.IndexByte(st, ','); c >= 0 {
				st = st[:c]
			}
			g.state = st
		}
		g.lib = strings.Contains(body, "github.com/fsnotify/fsnotify.")
		g.drv = strings.Contains(body, "main.")
		out = append(out, g)
	}
	return out
}

func blockedState(st string) bool {
	switch st {
	case "IO wait", "select", "chan receive", "chan send", "sync.Mutex.Lock", "semacquire", "sync.Cond.Wait",
		"sync.RWMutex.Lock", "sync.RWMutex.RLock", "select (no cases)", "chan receive (nil chan)", "chan send (nil chan)",
		"sync.WaitGroup.Wait":
		return true
	}
	return false
}

func fionread(fd int) int {
	if fd < 0 {
		return 0
	}
	var n int32
	_, _, e := syscall.Syscall(syscall.SYS_IOCTL, uintptr(fd), 0x541B, uintptr(unsafe.Pointer(&n)))
	if e != 0 {
		return 0
	}
	return int(n)
}

// quiesce waits until no library goroutine can make progress on its own: all of
// them are parked, and a reader parked in the poller has nothing to read.
func (s *scen) quiesce() bool {
	deadline := time.Now().Add(10 * time.Second)
	var last string
	for spin := 0; ; spin++ {
		sig, busy := s.sample()
		if !busy {
			if sig == last {
				return true
			}
			last = sig
		} else {
			last = ""
		}
		if time.Now().After(deadline) {
			return false
		}
		if spin < 20 {
			runtime.Gosched()
		} else {
			time.Sleep(50 * time.Microsecond)
		}
	}
}

func (s *scen) sample() (sig string, busy bool) {
	gs := goroutines()
	var sb strings.Builder
	iowait := map[int]bool{}
	for _, g := range gs {
		if !g.lib {
			continue
		}
		if !blockedState(g.state) {
			return "", true
		}
		if g.state == "IO wait" {
			iowait[g.id] = true
		}
		fmt.Fprintf(&sb, "%d:%s;", g.id, g.state)
	}
	// A reader parked in the poller must have nothing left to read.
	for _, w := range s.ws {
		if w.W == nil || w.closed {
			continue
		}
		for id := range w.gids {
			if iowait[id] && isInotify(w.fd) && fionread(w.fd) > 0 {
				return "", true
			}
		}
	}
	return sb.String(), false
}

func isInotify(fd int) bool {
	if fd < 0 {
		return false
	}
	l, err := os.Readlink("/proc/self/fd/" + strconv.Itoa(fd))
	return err == nil && l == "anon_inode:inotify"
}

func (s *scen) resources() resources {
	var r resources
	ents, _ := os.ReadDir("/proc/self/fd")
	for _, e := range ents {
		l, err := os.Readlink("/proc/self/fd/" + e.Name())
		if err == nil && l == "anon_inode:inotify" {
			r.ifds++
		}
	}
	for _, g := range goroutines() {
		if g.lib && !g.drv {
			r.gor++
		}
	}
	return r
}

// reapInotify closes every inotify descriptor of this process except keep.
func reapInotify(keep int) int {
	n := 0
	ents, _ := os.ReadDir("/proc/self/fd")
	for _, e := range ents {
		fd, err := strconv.Atoi(e.Name())
		if err != nil || fd == keep {
			continue
		}
		if l, err := os.Readlink("/proc/self/fd/" + e.Name()); err == nil && l == "anon_inode:inotify" {
			if syscall.Close(fd) == nil {
				n++
			}
		}
	}
	return n
}

// ---------------------------------------------------------------- step execution

func orEmpty(p []string) []string {
	if p == nil {
		return []string{}
	}
	return p
}

func (s *scen) exec(st *Step) {
	switch st.S {
	case "new":
		s.stepNew(st)
	case "fs":
		s.stepFs(st)
	case "rep":
		s.stepRep(st)
	case "call":
		s.stepCall(st)
	case "join":
		s.stepJoin(st)
	case "recv":
		s.stepRecv(st)
	case "drain":
		s.stepDrain(st)
	case "obs":
		s.stepObs(st)
	case "par":
		s.stepPar(st)
	case "loop":
		for i := 0; i < st.N; i++ {
			for j := range st.Body {
				s.exec(&st.Body[j])
			}
		}
	case "model":
		// the code-shaped model's prediction for the state just observed (spec -> code conformance; judged by the trace spec)
		s.emit(J{"k": "model", "w": st.W, "wl": st.Model.WL, "nmarks": st.Model.NMarks, "nwd": st.Model.NWd, "npath": st.Model.NPath})
	case "wflags":
		// fault point: the recorded flags of a watch are overwritten (an invalid mask makes the registration of new
		// sub-directories of a recursive watch fail with EINVAL)
		ok := false
		if w := s.ws[st.W]; w != nil && w.W != nil && st.Arg != nil {
			fl := uint32(0)
			if st.Ops != nil {
				fl = uint32(*st.Ops)
			}
			ok = fsnotify.VerifInotifySetWatchFlags(w.W, filepath.Clean(s.render(st.Arg)), fl)
		}
		s.emit(J{"k": "wflags", "w": st.W, "ok": ok})
	case "evmodel":
		// the event model's prediction of everything received so far (spec -> code conformance; judged by the trace spec)
		want := []J{}
		for _, e := range st.Want {
			want = append(want, J{"name": orEmpty(e.Name), "op": e.Op, "from": orEmpty(e.From)})
		}
		s.emit(J{"k": "evmodel", "w": st.W, "want": want})
	case "chdir":
		// the working directory of the scenario (relative Add arguments are relative to it)
		// (leaving a removed directory releases its inode: the kernel reports DELETE_SELF only now)
		err := os.Chdir(s.fsPath(st.P))
		ret := "ok"
		if err != nil {
			ret = "errno:" + errnoName(err)
		}
		s.emit(J{"k": "fs", "op": "chdir", "p": orEmpty(st.P), "to": []string{}, "fd": "", "ret": ret, "ino": "", "kind": "", "shadow": s.sh.drain()})
	case "fault":
		if w := s.ws[st.W]; w != nil && w.W != nil {
			fsnotify.VerifInotifyReadFault(w.W, st.Recurse)
			if st.Recurse {
				s.quiesce() // the reader has hit the failing read and is parked sending the error
			}
		}
		s.emit(J{"k": "fault", "w": st.W, "on": st.Recurse})
	case "recurse":
		fsnotify.VerifSetRecurse(st.Recurse)
		s.emit(J{"k": "recurse", "on": st.Recurse})
	case "spawn":
		// a child process started while Watchers exist: whatever descriptors it inherits outlive Close
		c := exec.Command("/bin/sleep", "600")
		c.SysProcAttr = &syscall.SysProcAttr{Pdeathsig: syscall.SIGKILL}
		err := c.Start()
		if err == nil {
			s.children = append(s.children, c)
		}
		s.emit(J{"k": "spawn", "ok": err == nil})
	case "sleep":
		// the consumer is away for a while (wall-clock time): nothing the library keeps may expire
		time.Sleep(time.Duration(st.N) * time.Millisecond)
		s.emit(J{"k": "sleep", "ms": st.N})
	case "shadowmask":
		if st.Ops != nil {
			s.sh.extra = uint32(*st.Ops)
		}
	default:
		s.emit(J{"k": "bad", "s": st.S})
	}
}

func libGids() map[int]bool {
	m := map[int]bool{}
	for _, g := range goroutines() {
		if g.lib && !g.drv {
			m[g.id] = true
		}
	}
	return m
}

func inotifyFds() map[int]bool {
	m := map[int]bool{}
	ents, _ := os.ReadDir("/proc/self/fd")
	for _, e := range ents {
		l, err := os.Readlink("/proc/self/fd/" + e.Name())
		if err == nil && l == "anon_inode:inotify" {
			n, _ := strconv.Atoi(e.Name())
			m[n] = true
		}
	}
	return m
}

func (s *scen) stepNew(st *Step) {
	capv := -1
	if st.Cap != nil {
		capv = *st.Cap
	}
	before := libGids()
	var restore func()
	if st.Nofile != 0 {
		restore = exhaustFds()
	}
	var w *fsnotify.Watcher
	var err error
	for try := 0; ; try++ {
		if capv < 0 {
			w, err = fsnotify.NewWatcher()
		} else {
			w, err = fsnotify.NewBufferedWatcher(uint(capv))
		}
		// Instance limit reached because other checks run in parallel: wait, do not judge.
		// (Not when this very process holds most of the instances: then the scenario itself leaks them, waiting cannot help.)
		if err != nil && st.Nofile == 0 && try < 100 && (errors.Is(err, syscall.EMFILE) || errors.Is(err, syscall.ENFILE)) && s.resources().ifds < 30 {
			time.Sleep(100 * time.Millisecond)
			continue
		}
		break
	}
	if restore != nil {
		restore()
	}
	line := J{"k": "new", "w": st.W, "cap": capv, "ret": classify(err), "obscap": -1, "fault": st.Nofile != 0}
	if err == nil {
		ww := &watcher{W: w, fd: fsnotify.VerifInotifyFd(w), gids: map[int]bool{}, reqCap: capv}
		if !st.Nowait {
			s.quiesce()
		}
		for id := range libGids() {
			if !before[id] {
				ww.gids[id] = true
			}
		}
		s.ws[st.W] = ww
		line["obscap"] = cap(w.Events)
	}
	r := s.resources()
	line["ifds"] = r.ifds - s.base.ifds
	line["gor"] = r.gor - s.base.gor
	s.emit(line)
}

// exhaustFds makes the next descriptor allocation fail with EMFILE (per process, no sysctl).
func exhaustFds() func() {
	var old syscall.Rlimit
	syscall.Getrlimit(syscall.RLIMIT_NOFILE, &old)
	// Fill every free slot below the highest descriptor in use, then cap the limit just above it.
	maxfd := 0
	used := map[int]bool{}
	ents, _ := os.ReadDir("/proc/self/fd")
	for _, e := range ents {
		n, _ := strconv.Atoi(e.Name())
		used[n] = true
		if n > maxfd {
			maxfd = n
		}
	}
	var fill []int
	for {
		fd, err := syscall.Open("/dev/null", syscall.O_RDONLY|syscall.O_CLOEXEC, 0)
		if err != nil {
			break
		}
		fill = append(fill, fd)
		if fd > maxfd {
			maxfd = fd
			break
		}
	}
	lim := syscall.Rlimit{Cur: uint64(maxfd + 1), Max: old.Max}
	syscall.Setrlimit(syscall.RLIMIT_NOFILE, &lim)
	return func() {
		syscall.Setrlimit(syscall.RLIMIT_NOFILE, &old)
		for _, fd := range fill {
			syscall.Close(fd)
		}
	}
}

func (s *scen) doFs(st *Step) (ret, ino, kind string, recs []rec) {
	p := s.fsPath(st.P)
	var err error
	recs = []rec{}
	after := func() { recs = append(recs, s.sh.drain()...) }
	switch st.Op {
	case "fsroot": // make the file system root a known object (a watch on "/" is about to be added)
		p = "/"
		if t, _, _ := s.inoOf(p, false); t == "?" {
			ino = s.newIno(p)
			s.sh.add(p, ino)
		}
		kind = "dir"
	case "chmodfsroot": // chmod / to the mode it has: IN_ATTRIB on the root itself, nothing changes
		p = "/"
		var fi os.FileInfo
		if fi, err = os.Stat(p); err == nil {
			err = os.Chmod(p, fi.Mode().Perm())
		}
		ino, kind, _ = s.inoOf(p, false)
	case "create":
		var f *os.File
		f, err = os.OpenFile(p, os.O_CREATE|os.O_EXCL|os.O_WRONLY, 0o644)
		if err == nil {
			f.Close()
			ino = s.newIno(p)
			s.sh.add(p, ino)
			kind = "file"
		}
	case "mkdir":
		err = os.Mkdir(p, 0o755)
		if err == nil {
			ino = s.newIno(p)
			s.sh.add(p, ino)
			kind = "dir"
		}
	case "mkfifo":
		err = syscall.Mkfifo(p, 0o644)
		if err == nil {
			ino = s.newIno(p)
			s.sh.add(p, ino)
			kind = "fifo"
		}
	case "symlink":
		err = os.Symlink(s.render(st.Tgt), p)
		if err == nil {
			ino = s.newIno(p)
			s.sh.add(p, ino)
			kind = "symlink"
		}
	case "symloop": // a symbolic link that names itself: resolving it fails with ELOOP
		err = os.Symlink(filepath.Base(p), p)
		if err == nil {
			ino = s.newIno(p)
			s.sh.add(p, ino)
			kind = "symlink"
		}
	case "link":
		ino, kind, _ = s.inoOf(p, false)
		err = os.Link(p, s.fsPath(st.To))
	case "write":
		ino, kind, _ = s.inoOf(p, true)
		var f *os.File
		f, err = os.OpenFile(p, os.O_WRONLY|os.O_APPEND, 0)
		if err == nil {
			_, err = f.Write([]byte("x"))
			f.Close()
		}
	case "trunc":
		ino, kind, _ = s.inoOf(p, true)
		err = os.Truncate(p, 0)
	case "chmod":
		ino, kind, _ = s.inoOf(p, true)
		mode := os.FileMode(0o600)
		if s.chmodT[p] {
			mode = 0o644
		}
		if kind == "dir" {
			mode |= 0o100
		}
		s.chmodT[p] = !s.chmodT[p]
		err = os.Chmod(p, mode)
	case "unlink":
		ino, kind, _ = s.inoOf(p, false)
		err = syscall.Unlink(p)
	case "rmdir":
		ino, kind, _ = s.inoOf(p, false)
		err = syscall.Rmdir(p)
	case "rename":
		ino, kind, _ = s.inoOf(p, false)
		err = os.Rename(p, s.fsPath(st.To))
	case "rename2": // rename(2) itself: unlike os.Rename it lets a directory replace an empty directory
		ino, kind, _ = s.inoOf(p, false)
		err = syscall.Rename(p, s.fsPath(st.To))
	case "open":
		ino, kind, _ = s.inoOf(p, true)
		var f *os.File
		f, err = os.OpenFile(p, os.O_RDWR, 0)
		if err != nil {
			f, err = os.Open(p)
		}
		if err == nil {
			s.fds[st.Fd] = f
		}
	case "closefd":
		if f, ok := s.fds[st.Fd]; ok {
			err = f.Close()
			delete(s.fds, st.Fd)
		} else {
			err = syscall.EBADF
		}
	case "fdwrite":
		if f, ok := s.fds[st.Fd]; ok {
			_, err = f.Write([]byte("y"))
		} else {
			err = syscall.EBADF
		}
	case "fdchmod":
		if f, ok := s.fds[st.Fd]; ok {
			err = f.Chmod(0o640)
		} else {
			err = syscall.EBADF
		}
	case "read":
		ino, kind, _ = s.inoOf(p, true)
		var f *os.File
		f, err = os.Open(p)
		if err == nil {
			var b [8]byte
			f.Read(b[:])
			f.Close()
		}
	case "readdir": // open, list and close a directory (IN_OPEN|IN_ISDIR, IN_ACCESS|IN_ISDIR, IN_CLOSE_NOWRITE|IN_ISDIR)
		ino, kind, _ = s.inoOf(p, true)
		_, err = os.ReadDir(p)
	case "rmrf":
		ino, kind, _ = s.inoOf(p, false)
		err = os.RemoveAll(p)
	default:
		err = syscall.ENOSYS
	}
	after()
	if err == nil {
		ret = "ok"
	} else {
		ret = "errno:" + errnoName(err)
	}
	return
}

func (s *scen) stepFs(st *Step) {
	ret, ino, kind, recs := s.doFs(st)
	s.emit(J{"k": "fs", "op": st.Op, "p": orEmpty(st.P), "to": orEmpty(st.To), "fd": st.Fd, "ret": ret, "ino": ino, "kind": kind, "shadow": recs})
}

// stepRep: a burst. The pattern is executed k times with the name variable "%"
// replaced by x<i>; one trace line carries the kernel records of the whole burst.
func (s *scen) stepRep(st *Step) {
	all := []rec{}
	fails := 0
	for i := 1; i <= st.K; i++ {
		for _, ps := range st.Pat {
			q := ps
			q.P = subst(ps.P, i)
			q.To = subst(ps.To, i)
			ret, _, _, recs := s.doFs(&q)
			if ret != "ok" {
				fails++
			}
			all = append(all, recs...)
		}
	}
	s.emit(J{"k": "fs", "op": "rep", "p": []string{}, "to": []string{}, "fd": "", "ret": "ok", "ino": "", "kind": "", "shadow": all, "n": st.K, "fails": fails})
}

// stepPar: several threads perform their operations at once, so that the records of different
// operations interleave in the kernel queue. One trace line carries the records (shadow order).
func (s *scen) stepPar(st *Step) {
	var wg sync.WaitGroup
	start := make(chan struct{})
	// pre-register names (the name table is not thread safe) and resolve paths
	type op struct{ from, to string }
	plans := make([][]op, len(st.Threads))
	for i, th := range st.Threads {
		for _, q := range th {
			plans[i] = append(plans[i], op{s.fsPath(q.P), s.fsPath(q.To)})
		}
	}
	fails := make([]int, len(plans))
	for i := range plans {
		wg.Add(1)
		go func(i int) {
			defer wg.Done()
			runtime.LockOSThread()
			defer runtime.UnlockOSThread()
			<-start
			for _, o := range plans[i] {
				if err := os.Rename(o.from, o.to); err != nil {
					fails[i]++
				}
			}
		}(i)
	}
	close(start)
	wg.Wait()
	nf := 0
	for _, f := range fails {
		nf += f
	}
	recs := s.sh.drain()
	s.emit(J{"k": "fs", "op": "par", "p": []string{}, "to": []string{}, "fd": "", "ret": "ok", "ino": "", "kind": "", "shadow": recs, "n": len(plans), "fails": nf})
}

func subst(p []string, i int) []string {
	if p == nil {
		return nil
	}
	out := make([]string, len(p))
	for j, c := range p {
		out[j] = strings.ReplaceAll(c, "%", strconv.Itoa(i))
	}
	return out
}

func (s *scen) tokList(paths []string) [][]string {
	out := make([][]string, 0, len(paths))
	for _, p := range paths {
		out = append(out, s.tokPath(p))
	}
	// deterministic order for readability; duplicates are preserved
	for i := 1; i < len(out); i++ {
		for j := i; j > 0 && strings.Join(out[j], "\x00") < strings.Join(out[j-1], "\x00"); j-- {
			out[j], out[j-1] = out[j-1], out[j]
		}
	}
	return out
}

func (s *scen) stepCall(st *Step) {
	w := s.ws[st.W]
	line := J{"k": "call", "w": st.W, "t": st.T, "op": st.Op, "abs": false, "arg": []string{}, "resino": "", "reserr": "", "reskind": "", "tree": []J{},
		"ops": -1, "nofollow": st.NoFollow, "recurse": st.Recurse, "async": st.Async, "ret": "", "wl": [][]string{}, "wlnil": false}
	if w == nil || w.W == nil {
		line["ret"] = "nowatcher"
		s.emit(line)
		return
	}
	var argstr string
	if st.Arg != nil {
		line["abs"] = st.Arg.Abs
		line["arg"] = orEmpty(st.Arg.C)
		argstr = s.render(st.Arg)
		if st.Recurse {
			argstr += "/..."
		}
	}
	if st.Ops != nil {
		line["ops"] = *st.Ops
	}
	if st.Op == "add" {
		// What the argument resolves to right now (an observation of the environment, not an expectation).
		ino, kind, e := s.inoOf(filepath.Clean(s.render(st.Arg)), !st.NoFollow)
		line["resino"], line["reskind"], line["reserr"] = ino, kind, e
		if st.Recurse && e == "" {
			// the directories below the root as they are now (an observation of the environment)
			tree := []J{}
			root := filepath.Clean(s.render(st.Arg))
			filepath.WalkDir(root, func(p string, d os.DirEntry, err error) error {
				if err != nil || !d.IsDir() {
					return nil
				}
				t, _, _ := s.inoOf(p, false)
				tree = append(tree, J{"ino": t, "path": s.tokPath(p)})
				return nil
			})
			line["tree"] = tree
		}
	}
	if st.Op == "watchlist" && !st.Async {
		s.quiesce() // the library has handled everything it can handle on its own before the list is taken
	}
	pc := &pendingCall{done: make(chan J, 1), op: st.Op, w: st.W}
	W := w.W
	if st.Op == "close" {
		w.closed = true
	}
	go func() {
		r := J{}
		switch st.Op {
		case "add":
			var err error
			if st.Ops != nil || st.NoFollow || st.Create {
				ops := fsnotify.Op(0)
				if st.Ops != nil {
					ops = fsnotify.Op(*st.Ops)
				}
				err = fsnotify.VerifAddWith(W, argstr, ops, st.Ops != nil, st.NoFollow, st.Create)
			} else {
				err = W.Add(argstr)
			}
			r["ret"] = classify(err)
		case "remove":
			r["ret"] = classify(W.Remove(argstr))
		case "watchlist":
			l := W.WatchList()
			r["ret"] = "ok"
			r["wl"] = l
			r["wlnil"] = l == nil
		case "close":
			r["ret"] = classify(W.Close())
		default:
			r["ret"] = "badop"
		}
		pc.done <- r
	}()
	if st.Async {
		s.calls[st.T] = pc
		if !st.Nowait {
			s.quiesce()
		}
		line["ret"] = "pending"
		s.emit(line)
		return
	}
	s.finishCall(pc, line, st.T)
}

func (s *scen) finishCall(pc *pendingCall, line J, t string) {
	var r J
	select {
	case r = <-pc.done:
	case <-time.After(100 * time.Millisecond):
		// Not back yet. Blocked only if the system is quiescent and stays so.
		s.quiesce()
		select {
		case r = <-pc.done:
		case <-time.After(blockWait):
		}
	}
	if r == nil {
		line["ret"] = "blocked"
		s.calls[t] = pc
		s.dirty = true
		s.emit(line)
		return
	}
	delete(s.calls, t)
	line["ret"] = r["ret"]
	if l, ok := r["wl"].([]string); ok {
		line["wl"] = s.tokList(l)
		line["wlnil"] = r["wlnil"]
	}
	s.emit(line)
}

func (s *scen) stepJoin(st *Step) {
	pc := s.calls[st.T]
	line := J{"k": "join", "t": st.T, "w": "", "op": "", "ret": "", "wl": [][]string{}, "wlnil": false}
	if pc == nil {
		line["ret"] = "nocall"
		s.emit(line)
		return
	}
	line["w"], line["op"] = pc.w, pc.op
	s.finishCall(pc, line, st.T)
}

func (s *scen) evVal(e fsnotify.Event) J {
	from := []string{}
	if rf := fsnotify.VerifRenamedFrom(e); rf != "" {
		from = s.tokPath(rf)
	}
	return J{"t": "ev", "name": s.tokPath(e.Name), "op": uint32(e.Op), "from": from, "cls": "", "str": s.tokStr(e.String())}
}

// tokStr replaces real names in Event.String() by tokens for readability (not judged).
func (s *scen) tokStr(x string) string {
	if len(x) > 200 {
		x = x[:200]
	}
	return strings.ToValidUTF8(x, "?")
}

func errVal(err error) J {
	return J{"t": "err", "name": []string{}, "op": 0, "from": []string{}, "cls": classify(err), "str": ""}
}

func noneVal(t string) J {
	return J{"t": t, "name": []string{}, "op": 0, "from": []string{}, "cls": "", "str": ""}
}

func (s *scen) tryRecv(w *watcher, ch string) J {
	v := s.tryRecv1(w, ch)
	v["ch"] = ch
	return v
}

func (s *scen) tryRecv1(w *watcher, ch string) J {
	if ch == "err" {
		select {
		case err, ok := <-w.W.Errors:
			if !ok {
				w.errClosed = true
				return noneVal("closed")
			}
			return errVal(err)
		default:
			return noneVal("none")
		}
	}
	select {
	case e, ok := <-w.W.Events:
		if !ok {
			w.evClosed = true
			return noneVal("closed")
		}
		return s.evVal(e)
	default:
		return noneVal("none")
	}
}

func (s *scen) stepRecv(st *Step) {
	w := s.ws[st.W]
	if w == nil || w.W == nil {
		s.emit(J{"k": "recv", "w": st.W, "ch": st.Ch, "val": noneVal("nowatcher"), "q": false})
		return
	}
	q := s.quiesce()
	v := s.tryRecv(w, st.Ch)
	s.emit(J{"k": "recv", "w": st.W, "ch": st.Ch, "val": v, "q": q})
}

func (s *scen) stepDrain(st *Step) {
	w := s.ws[st.W]
	vals := []J{}
	end := "idle"
	if w == nil || w.W == nil {
		s.emit(J{"k": "drain", "w": st.W, "vals": vals, "end": "nowatcher"})
		return
	}
	max := st.Max
	if max == 0 {
		max = 1 << 20
	}
	const errFlood = 300
	nerr, flood := 0, false
	if st.Free {
		// free-running consumer: receives while the reader is still working through its batch
		pause := time.Duration(st.PauseUs) * time.Microsecond
		for len(vals) < max && !(w.evClosed && w.errClosed) {
			var evc <-chan fsnotify.Event
			var erc <-chan error
			if !w.evClosed {
				evc = w.W.Events
			}
			if !w.errClosed {
				erc = w.W.Errors
			}
			select {
			case e, ok := <-evc:
				if !ok {
					w.evClosed = true
					v := noneVal("closed")
					v["ch"] = "ev"
					vals = append(vals, v)
				} else {
					v := s.evVal(e)
					v["ch"] = "ev"
					vals = append(vals, v)
				}
			case err, ok := <-erc:
				if !ok {
					w.errClosed = true
					v := noneVal("closed")
					v["ch"] = "err"
					vals = append(vals, v)
				} else {
					v := errVal(err)
					v["ch"] = "err"
					vals = append(vals, v)
					if nerr++; nerr > errFlood {
						end = "flood" // an endless stream of errors: what was received is judged, the rest is not waited for
						goto done
					}
				}
			case <-time.After(300 * time.Microsecond):
				if !s.quiesce() {
					end = "unquiet"
					goto done
				}
				if len(w.W.Events) == 0 && !s.anySending() {
					goto done
				}
			}
			if pause > 0 {
				time.Sleep(pause)
			}
		}
	done:
		if w.evClosed && w.errClosed {
			end = "closed"
		}
		if len(vals) >= max {
			end = "max"
		}
		s.emit(J{"k": "drain", "w": st.W, "vals": vals, "end": end, "free": true})
		return
	}
	confirmed := false
	for len(vals) < max {
		if !s.quiesce() {
			end = "unquiet"
			break
		}
		got := false
		if !w.evClosed && st.Only != "err" {
			// take everything that is ready on Events before looking at Errors again
			for len(vals) < max {
				v := s.tryRecv(w, "ev")
				if v["t"] == "none" {
					break
				}
				vals = append(vals, v)
				got = true
				if v["t"] == "closed" {
					break
				}
				if cap(w.W.Events) == 0 {
					break
				}
			}
		}
		if !w.errClosed && st.Only != "ev" {
			v := s.tryRecv(w, "err")
			if v["t"] != "none" {
				vals = append(vals, v)
				got = true
				if nerr++; nerr > errFlood && v["t"] == "err" {
					flood = true // an endless stream of errors: what was received is judged, the rest is not waited for
					break
				}
			}
		}
		if w.evClosed && w.errClosed {
			end = "closed"
			break
		}
		if !got {
			if len(vals) == 0 && !confirmed {
				// Nothing at all was ready: before the stream is declared drained, look once more a moment later
				// (quiescence is inferred from goroutine states; a sweep under heavy load once saw an event arrive
				// right after such an empty drain).
				confirmed = true
				time.Sleep(time.Millisecond)
				continue
			}
			break
		}
	}
	if st.Only != "" && end == "idle" {
		end = "partial" // the other channel was not looked at: nothing is settled
	}
	if flood {
		end = "flood"
	}
	if len(vals) >= max {
		end = "max"
		if st.Max > 0 {
			end = "partial" // the scenario asked for at most Max values
		}
	}
	s.emit(J{"k": "drain", "w": st.W, "vals": vals, "end": end, "free": false, "fion": fionread(w.fd), "qlen": len(w.W.Events)})
}

// anySending reports whether a library goroutine is parked in a channel operation (something is waiting to be received).
func (s *scen) anySending() bool {
	for _, g := range goroutines() {
		if g.lib && !g.drv && (g.state == "select" || g.state == "chan send") {
			return true
		}
	}
	return false
}

func (s *scen) stepObs(st *Step) {
	w := s.ws[st.W]
	q := s.quiesce()
	line := J{"k": "obs", "w": st.W, "q": q, "marks": []J{}, "nwd": -1, "npath": -1, "locked": false, "paths": [][]string{},
		"rd": "none", "fion": 0, "cap": -1, "len": -1, "ifds": 0, "gor": 0, "pending": []string{}, "fdopen": false, "danglers": 0}
	if w != nil && w.W != nil {
		wd, path, locked := fsnotify.VerifInotifyTables(w.W)
		line["locked"] = locked
		if !locked {
			line["nwd"], line["npath"] = len(wd), len(path)
			ps := make([]string, 0, len(path))
			d := 0
			for p, id := range path {
				ps = append(ps, p)
				if _, ok := wd[id]; !ok {
					d++
				}
			}
			line["paths"] = s.tokList(ps)
			line["danglers"] = d
		}
		if !w.closed { // afterwards the descriptor number may belong to someone else
			marks, open := s.marks(w.fd)
			line["marks"] = marks
			line["fdopen"] = open
			line["fion"] = fionread(w.fd)
		}
		line["cap"] = cap(w.W.Events)
		line["len"] = len(w.W.Events)
		rd := "gone"
		for _, g := range goroutines() {
			if w.gids[g.id] {
				rd = g.state
			}
		}
		line["rd"] = rd
	}
	r := s.resources()
	line["ifds"] = r.ifds - s.base.ifds
	line["gor"] = r.gor - s.base.gor
	pend := []string{}
	for t := range s.calls {
		pend = append(pend, t)
	}
	line["pending"] = pend
	line["childifds"] = s.childInotifyFds()
	s.emit(line)
}

// childInotifyFds counts the inotify descriptors held by the child processes the scenario spawned.
func (s *scen) childInotifyFds() int {
	n := 0
	for _, c := range s.children {
		dir := "/proc/" + strconv.Itoa(c.Process.Pid) + "/fd"
		es, _ := os.ReadDir(dir)
		for _, e := range es {
			if l, err := os.Readlink(dir + "/" + e.Name()); err == nil && l == "anon_inode:inotify" {
				n++
			}
		}
	}
	return n
}

// marks parses the kernel's view of the instance from /proc/self/fdinfo.
func (s *scen) marks(fd int) ([]J, bool) {
	out := []J{}
	if fd < 0 {
		return out, false
	}
	l, err := os.Readlink("/proc/self/fd/" + strconv.Itoa(fd))
	if err != nil || l != "anon_inode:inotify" {
		return out, false
	}
	b, err := os.ReadFile("/proc/self/fdinfo/" + strconv.Itoa(fd))
	if err != nil {
		return out, false
	}
	for _, ln := range strings.Split(string(b), "\n") {
		if !strings.HasPrefix(ln, "inotify ") {
			continue
		}
		m := J{"wd": -1, "ino": "?", "m": 0}
		for _, f := range strings.Fields(ln)[1:] {
			kv := strings.SplitN(f, ":", 2)
			if len(kv) != 2 {
				continue
			}
			switch kv[0] {
			case "wd":
				n, _ := strconv.Atoi(kv[1])
				m["wd"] = n
			case "ino":
				n, _ := strconv.ParseUint(kv[1], 16, 64)
				if t, ok := s.inoTok[n]; ok {
					m["ino"] = t
				}
			case "mask":
				n, _ := strconv.ParseUint(kv[1], 16, 64)
				m["m"] = n
			}
		}
		out = append(out, m)
	}
	return out, true
}

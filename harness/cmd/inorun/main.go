// inorun replays scenarios (JSON, one per line) against the real fsnotify
// Watcher built from the working tree and records what happened as NDJSON
// trace lines for validation by TLC (spec/InotifyTrace.tla).
//
// The driver contains no expected values: it executes steps, waits for
// quiescence, and projects what it sees (names -> tokens, errors -> classes,
// /proc text -> records). A shadow inotify instance owned by the driver records
// what the kernel really emitted for every object of the scenario.
package main

import (
	"bufio"
	"bytes"
	"encoding/json"
	"flag"
	"fmt"
	"os"
	"os/exec"
	"path/filepath"
	"sort"
	"strings"
)

type Arg struct {
	Abs bool     `json:"abs"`
	C   []string `json:"c"`
	Raw string   `json:"raw,omitempty"` // passed literally (a spelling of the file system root: "/", "//", "/."); C is then ["FSROOT"]
}

type Step struct {
	S        string   `json:"s"`
	W        string   `json:"w,omitempty"`
	Cap      *int     `json:"cap,omitempty"`
	Op       string   `json:"op,omitempty"`
	P        []string `json:"p,omitempty"`
	To       []string `json:"to,omitempty"`
	Tgt      *Arg     `json:"tgt,omitempty"`
	Fd       string   `json:"fd,omitempty"`
	T        string   `json:"t,omitempty"`
	Arg      *Arg     `json:"arg,omitempty"`
	Ops      *int     `json:"ops,omitempty"`
	NoFollow bool     `json:"nofollow,omitempty"`
	Recurse  bool     `json:"recurse,omitempty"`
	Create   bool     `json:"sendcreate,omitempty"`
	Async    bool     `json:"async,omitempty"`
	Nowait   bool     `json:"nowait,omitempty"` // do not wait for quiescence: the next step races with this one
	Ch       string   `json:"ch,omitempty"`
	K        int      `json:"k,omitempty"`
	Pat      []Step   `json:"pat,omitempty"`
	N        int      `json:"n,omitempty"`
	Body     []Step   `json:"body,omitempty"`
	Nofile   int      `json:"nofile,omitempty"`
	Max      int      `json:"max,omitempty"`
	Quiet    bool     `json:"quiet,omitempty"`
	Free     bool     `json:"free,omitempty"`
	Only     string   `json:"only,omitempty"`
	Threads  [][]Step `json:"threads,omitempty"`
	Model    *Model   `json:"model,omitempty"`
	Want     []EvWant `json:"want,omitempty"`
	PauseUs  int      `json:"pause_us,omitempty"`
}

// EvWant: one event the event model (spec/InotifyEvents via MC_EventsGen) says the user receives.
type EvWant struct {
	Name []string `json:"name"`
	Op   int      `json:"op"`
	From []string `json:"from"`
}

type Model struct {
	WL     []string `json:"wl"`
	NMarks int      `json:"nmarks"`
	NWd    int      `json:"nwd"`
	NPath  int      `json:"npath"`
}

type Scenario struct {
	ID    string `json:"id"`
	Tbl   int    `json:"tbl"`
	Seed  int64  `json:"seed"`
	Fam   string `json:"fam,omitempty"`
	Steps []Step `json:"steps"`
}

func main() {
	var (
		in     = flag.String("in", "", "scenario file (NDJSON)")
		out    = flag.String("out", "", "trace file (NDJSON)")
		jobs   = flag.Int("j", 8, "parallel worker processes")
		worker = flag.Bool("worker", false, "internal: run as worker")
		tmp    = flag.String("tmp", "", "scratch directory (default $TMPDIR)")
	)
	flag.Parse()
	if *in == "" || *out == "" {
		fmt.Fprintln(os.Stderr, "usage: inorun -in scenarios.ndjson -out traces.ndjson [-j N]")
		os.Exit(2)
	}
	if *tmp == "" {
		*tmp = os.TempDir()
	}
	if *worker {
		os.Exit(runWorker(*in, *out, *tmp))
	}
	os.Exit(runParent(*in, *out, *tmp, *jobs))
}

func readScenarios(path string) ([]Scenario, error) {
	f, err := os.Open(path)
	if err != nil {
		return nil, err
	}
	defer f.Close()
	var scs []Scenario
	sc := bufio.NewScanner(f)
	sc.Buffer(make([]byte, 1<<20), 1<<28)
	for sc.Scan() {
		line := bytes.TrimSpace(sc.Bytes())
		if len(line) == 0 {
			continue
		}
		var s Scenario
		if err := json.Unmarshal(line, &s); err != nil {
			return nil, fmt.Errorf("bad scenario line: %v", err)
		}
		scs = append(scs, s)
	}
	return scs, sc.Err()
}

// runParent splits the scenarios over worker processes. A worker that dies
// (panic in the library, race detector exit) is attributed to the scenario in
// flight by a "crash" line and restarted on the remaining scenarios.
func runParent(in, out, tmp string, jobs int) int {
	scs, err := readScenarios(in)
	if err != nil {
		fmt.Fprintln(os.Stderr, "INFRA-ERROR:", err)
		return 2
	}
	if jobs < 1 {
		jobs = 1
	}
	if jobs > len(scs) {
		jobs = len(scs)
	}
	if jobs == 0 {
		os.WriteFile(out, nil, 0o644)
		return 0
	}
	dir, err := os.MkdirTemp(tmp, "inorun-")
	if err != nil {
		fmt.Fprintln(os.Stderr, "INFRA-ERROR:", err)
		return 2
	}
	defer os.RemoveAll(dir)

	type res struct {
		idx  int
		code int
	}
	ch := make(chan res, jobs)
	parts := make([]string, jobs)
	for j := 0; j < jobs; j++ {
		var chunk []Scenario
		for i := j; i < len(scs); i += jobs {
			chunk = append(chunk, scs[i])
		}
		parts[j] = filepath.Join(dir, fmt.Sprintf("part%d.ndjson", j))
		go func(j int, chunk []Scenario) {
			ch <- res{j, superviseChunk(chunk, parts[j], dir, tmp, j)}
		}(j, chunk)
	}
	rc := 0
	for j := 0; j < jobs; j++ {
		r := <-ch
		if r.code != 0 {
			rc = 2
		}
	}
	// Concatenate the parts.
	of, err := os.Create(out)
	if err != nil {
		fmt.Fprintln(os.Stderr, "INFRA-ERROR:", err)
		return 2
	}
	defer of.Close()
	w := bufio.NewWriter(of)
	for _, p := range parts {
		b, _ := os.ReadFile(p)
		w.Write(b)
	}
	w.Flush()
	return rc
}

func superviseChunk(chunk []Scenario, part, dir, tmp string, j int) int {
	self, _ := os.Executable()
	os.WriteFile(part, nil, 0o644)
	restarts := 0
	for len(chunk) > 0 {
		inf := filepath.Join(dir, fmt.Sprintf("in%d.ndjson", j))
		f, _ := os.Create(inf)
		enc := json.NewEncoder(f)
		for _, s := range chunk {
			enc.Encode(s)
		}
		f.Close()
		outf := filepath.Join(dir, fmt.Sprintf("out%d.ndjson", j))
		os.Remove(outf)
		cmd := exec.Command(self, "-worker", "-in", inf, "-out", outf, "-tmp", tmp)
		var stderr bytes.Buffer
		cmd.Stderr = &stderr
		cmd.Stdout = os.Stdout
		err := cmd.Run()
		code := 0
		if err != nil {
			if ee, ok := err.(*exec.ExitError); ok {
				code = ee.ExitCode()
			} else {
				fmt.Fprintln(os.Stderr, "INFRA-ERROR: worker:", err)
				return 2
			}
		}
		b, _ := os.ReadFile(outf)
		// Drop a possibly incomplete last line.
		if n := bytes.LastIndexByte(b, '\n'); n >= 0 {
			b = b[:n+1]
		} else {
			b = nil
		}
		// Which scenarios are complete? A scenario is complete when its "end" line is there.
		done := map[string]bool{}
		var started string
		for _, ln := range bytes.Split(b, []byte("\n")) {
			if len(ln) == 0 {
				continue
			}
			var m struct {
				K  string `json:"k"`
				ID string `json:"id"`
			}
			json.Unmarshal(ln, &m)
			if m.K == "reset" {
				started = m.ID
			}
			if m.K == "end" {
				done[m.ID] = true
				started = ""
			}
		}
		pf, _ := os.OpenFile(part, os.O_APPEND|os.O_WRONLY, 0o644)
		pf.Write(b)
		if started != "" {
			// The worker died inside scenario `started`.
			txt := crashClass(stderr.String(), code)
			// "go": the Go runtime reported a panic, a fatal error or a race - something the code under test did.  A
			// worker that dies otherwise (a signal from outside, the OOM killer ...) tells nothing about the library.
			se := stderr.String()
			head := se
			if len(head) > 700 {
				head = head[:700]
			}
			ln, _ := json.Marshal(map[string]interface{}{"k": "crash", "id": started, "cls": txt, "code": code, "go": !strings.HasPrefix(txt, "exit:"),
				"text": head + "\n[...]\n" + tail(se, 1500)})
			pf.Write(append(ln, '\n'))
			ln, _ = json.Marshal(map[string]interface{}{"k": "end", "id": started, "dirty": true})
			pf.Write(append(ln, '\n'))
			done[started] = true
		} else if code != 0 && code != 3 {
			pf.Close()
			fmt.Fprintf(os.Stderr, "INFRA-ERROR: worker exit %d outside a scenario: %s\n", code, tail(stderr.String(), 800))
			return 2
		}
		pf.Close()
		var rest []Scenario
		for _, s := range chunk {
			if !done[s.ID] {
				rest = append(rest, s)
			}
		}
		if len(rest) == len(chunk) {
			restarts++
			if restarts > 3 {
				fmt.Fprintf(os.Stderr, "INFRA-ERROR: worker makes no progress (exit %d): %s\n", code, tail(stderr.String(), 800))
				return 2
			}
		}
		chunk = rest
	}
	return 0
}

func tail(s string, n int) string {
	if len(s) > n {
		s = s[len(s)-n:]
	}
	return s
}

func crashClass(stderr string, code int) string {
	switch {
	case strings.Contains(stderr, "DATA RACE"):
		return "race"
	case strings.Contains(stderr, "send on closed channel"):
		return "panic:send on closed channel"
	case strings.Contains(stderr, "close of closed channel"):
		return "panic:close of closed channel"
	case strings.Contains(stderr, "nil pointer dereference"):
		return "panic:nil dereference"
	case strings.Contains(stderr, "index out of range"):
		return "panic:index out of range"
	case strings.Contains(stderr, "slice bounds out of range"):
		return "panic:slice bounds"
	case strings.Contains(stderr, "all goroutines are asleep"):
		return "fatal:deadlock"
	case strings.Contains(stderr, "concurrent map"):
		return "fatal:concurrent map access"
	case strings.Contains(stderr, "panic:"):
		return "panic:other"
	case strings.Contains(stderr, "fatal error:"):
		return "fatal:other"
	}
	return fmt.Sprintf("exit:%d", code)
}

func sortedKeys(m map[string]string) []string {
	ks := make([]string, 0, len(m))
	for k := range m {
		ks = append(ks, k)
	}
	sort.Strings(ks)
	return ks
}

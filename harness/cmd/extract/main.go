// extract copies backend sources that do not compile on Linux out of the
// working tree into scratch packages of this module, rewriting only build
// constraints, the package clause and two import paths, so that the real
// code of the kqueue backend and the real translation tables of the Windows
// backend can be compiled and executed here:
//
//	zz_gen/<key>/kq   backend_kqueue.go shared.go fsnotify.go system_bsd.go  (x/sys/unix -> simkq/unix)
//	zz_gen/<key>/win  fsnotify.go + the sysFS* constants and newEvent/toWindowsFlags/toFSnotifyFlags/xSupports
//	zz_gen/<key>/zt   internal/ztest/diff.go
package main

import (
	"bytes"
	"flag"
	"fmt"
	"go/ast"
	"go/format"
	"go/parser"
	"go/printer"
	"go/token"
	"os"
	"path/filepath"
	"regexp"
	"strings"
)

func must(err error) {
	if err != nil {
		fmt.Fprintln(os.Stderr, "extract:", err)
		os.Exit(2)
	}
}

var buildLine = regexp.MustCompile(`(?m)^//go:build .*\n`)
var plusBuild = regexp.MustCompile(`(?m)^// \+build .*\n`)

func copyRewrite(src, dst, pkg string, repl map[string]string) {
	b, err := os.ReadFile(src)
	must(err)
	s := string(b)
	s = buildLine.ReplaceAllString(s, "")
	s = plusBuild.ReplaceAllString(s, "")
	s = regexp.MustCompile(`(?m)^package \w+`).ReplaceAllString(s, "package "+pkg)
	for a, b := range repl {
		if strings.HasSuffix(a, "/internal") {
			s = strings.ReplaceAll(s, `"`+a+`"`, `internal "`+b+`"`)
			continue
		}
		s = strings.ReplaceAll(s, `"`+a+`"`, `"`+b+`"`)
	}
	must(os.WriteFile(dst, []byte("// Code copied from "+filepath.Base(src)+" by harness/cmd/extract; DO NOT EDIT.\n"+s), 0o644))
}

func main() {
	repo := flag.String("repo", "/repo", "repository working tree")
	out := flag.String("out", "", "output directory (inside the harness module)")
	mod := flag.String("mod", "verif/harness", "module path of the harness")
	flag.Parse()
	if *out == "" {
		must(fmt.Errorf("-out required"))
	}
	must(os.RemoveAll(*out))
	rel, err := filepath.Rel(".", *out)
	_ = rel
	must(err)

	// ---- kqueue backend
	kq := filepath.Join(*out, "kq")
	must(os.MkdirAll(kq, 0o755))
	repl := map[string]string{
		"golang.org/x/sys/unix":                    *mod + "/simkq/unix",
		"github.com/fsnotify/fsnotify/internal":    *mod + "/simkq/kqinternal",
	}
	for _, f := range []string{"backend_kqueue.go", "shared.go", "fsnotify.go", "system_bsd.go"} {
		copyRewrite(filepath.Join(*repo, f), filepath.Join(kq, f), "kq", repl)
	}
	must(os.WriteFile(filepath.Join(kq, "zz_export.go"), []byte(kqExport), 0o644))

	// ---- windows tables
	win := filepath.Join(*out, "win")
	must(os.MkdirAll(win, 0o755))
	copyRewrite(filepath.Join(*repo, "fsnotify.go"), filepath.Join(win, "fsnotify.go"), "win", nil)
	must(os.WriteFile(filepath.Join(win, "extracted.go"), extractWindows(filepath.Join(*repo, "backend_windows.go"), *mod), 0o644))

	// ---- ztest diff
	zt := filepath.Join(*out, "zt")
	must(os.MkdirAll(zt, 0o755))
	copyRewrite(filepath.Join(*repo, "internal", "ztest", "diff.go"), filepath.Join(zt, "diff.go"), "zt", nil)
}

const kqExport = `package kq

// Exported wrappers for the harness (generated).

func KqNewEvent(name, link string, mask uint32) Event { return (&kqueue{}).newEvent(name, link, mask) }
func KqSupports(op Op) bool                           { return (&kqueue{}).xSupports(op) }

const KqNoteAllEvents = noteAllEvents

const (
	XOpen       = xUnportableOpen
	XRead       = xUnportableRead
	XCloseWrite = xUnportableCloseWrite
	XCloseRead  = xUnportableCloseRead
)

// KqTables reports the sizes of the five bookkeeping tables and the watch descriptors in the wd table.
func KqTables(w *Watcher) (wd []int, npath, nbyDir, nseen, nbyUser int, paths []string) {
	b := w.b.(*kqueue)
	b.watches.mu.RLock()
	defer b.watches.mu.RUnlock()
	for fd := range b.watches.wd {
		wd = append(wd, fd)
	}
	for p := range b.watches.path {
		paths = append(paths, p)
	}
	return wd, len(b.watches.path), len(b.watches.byDir), len(b.watches.seen), len(b.watches.byUser), paths
}

func KqFds(w *Watcher) (kq int, pipe [2]int) {
	b := w.b.(*kqueue)
	return b.kq, b.closepipe
}
`

// extractWindows pulls the sysFS* const block and the four table functions out of backend_windows.go.
func extractWindows(path, mod string) []byte {
	fset := token.NewFileSet()
	f, err := parser.ParseFile(fset, path, nil, parser.ParseComments)
	must(err)
	var buf bytes.Buffer
	buf.WriteString("// Code extracted from backend_windows.go by harness/cmd/extract; DO NOT EDIT.\npackage win\n\nimport \"" + mod + "/simwin/windows\"\n\n")
	buf.WriteString("type readDirChangesW struct{}\n\nvar defaultBufferSize = 50\n\nfunc newBackend(ev chan Event, errs chan error) (backend, error) { return nil, nil }\n\n")
	want := map[string]bool{"newEvent": true, "toWindowsFlags": true, "toFSnotifyFlags": true, "xSupports": true}
	found := map[string]bool{}
	for _, d := range f.Decls {
		switch d := d.(type) {
		case *ast.GenDecl:
			if d.Tok != token.CONST {
				continue
			}
			has := false
			for _, sp := range d.Specs {
				for _, n := range sp.(*ast.ValueSpec).Names {
					if strings.HasPrefix(n.Name, "sysFS") {
						has = true
					}
				}
			}
			if has {
				d.Doc = nil
				must(printer.Fprint(&buf, fset, d))
				buf.WriteString("\n\n")
				found["const"] = true
			}
		case *ast.FuncDecl:
			if d.Recv == nil || !want[d.Name.Name] {
				continue
			}
			d.Doc = nil
			must(printer.Fprint(&buf, fset, d))
			buf.WriteString("\n\n")
			found[d.Name.Name] = true
		}
	}
	for k := range want {
		if !found[k] {
			must(fmt.Errorf("backend_windows.go: function %s not found", k))
		}
	}
	if !found["const"] {
		must(fmt.Errorf("backend_windows.go: sysFS constants not found"))
	}
	buf.WriteString(`
func WinNewEvent(name string, mask uint32) Event { return (&readDirChangesW{}).newEvent(name, mask) }
func WinToWindowsFlags(mask uint64) uint32       { return (&readDirChangesW{}).toWindowsFlags(mask) }
func WinToFSnotifyFlags(action uint32) uint64    { return (&readDirChangesW{}).toFSnotifyFlags(action) }
func WinSupports(op Op) bool                     { return (&readDirChangesW{}).xSupports(op) }

const WinAllEvents = sysFSALLEVENTS

const (
	XOpen       = xUnportableOpen
	XRead       = xUnportableRead
	XCloseWrite = xUnportableCloseWrite
	XCloseRead  = xUnportableCloseRead
)
`)
	src, err := format.Source(buf.Bytes())
	if err != nil {
		return buf.Bytes()
	}
	return src
}

#!/usr/bin/env python3
"""Scenario generator for the inotify conformance engines.

Scenarios are *inputs* only (filesystem operations, API calls, consumer steps);
nothing in here says what the library should do with them -- that is decided by
spec/Ideal.tla when TLC validates the recorded trace.  A small abstract file
system keeps most generated operations valid; an operation that fails on the
real file system is simply logged as failed and produces no kernel records.

usage: gen.py --fam FAMILY --n N --seed S [--k K] > scenarios.ndjson
"""
import argparse
import itertools
import json
import random
import sys

SPELLINGS = ["abs", "rel", "dot", "dbl", "dotdot", "trail", "absdd", "reldot"]


def arg(path, sp, rnd=None):
    """path: tuple of name tokens below the root. Returns the Add/Remove argument."""
    c = list(path)
    if sp == "abs":
        return {"abs": True, "c": c}
    if sp == "rel":
        return {"abs": False, "c": c}
    if sp == "dot":
        return {"abs": False, "c": ["."] + c}
    if sp == "dbl":
        if not c:
            return {"abs": True, "c": [""]}
        i = (rnd.randrange(len(c)) if rnd else 0)
        return {"abs": bool(rnd and rnd.random() < 0.5), "c": c[:i + 1] + [""] + c[i + 1:]}
    if sp == "dotdot":
        if len(c) < 2:
            return {"abs": False, "c": c + ["."]}
        return {"abs": False, "c": [c[0], "..", c[0]] + c[1:]}
    if sp == "absdd":
        if len(c) < 2:
            return {"abs": True, "c": c + ["."]}
        return {"abs": True, "c": [c[0], "..", c[0]] + c[1:]}
    if sp == "trail":
        return {"abs": bool(rnd and rnd.random() < 0.5), "c": c + [""]}
    if sp == "reldot":
        return {"abs": False, "c": c[:1] + ["."] + c[1:]}
    raise ValueError(sp)


class FS:
    """Abstract file system used only to keep generated operations mostly valid."""

    def __init__(self):
        self.kind = {(): "dir"}      # path -> dir|file|symlink
        self.ino = {(): 0}
        self.n = 1
        self.fds = {}                # fd name -> path it was opened by

    def exists(self, p):
        return p in self.kind

    def isdir(self, p):
        return self.kind.get(p) == "dir"

    def children(self, p):
        return [q for q in self.kind if len(q) == len(p) + 1 and q[:len(p)] == p]

    def add(self, p, kind, ino=None):
        self.kind[p] = kind
        if ino is None:
            ino = self.n
            self.n += 1
        self.ino[p] = ino

    def rm(self, p):
        for q in [q for q in self.kind if q[:len(p)] == p]:
            del self.kind[q]
            del self.ino[q]

    def mv(self, a, b):
        self.rm(b)
        for q in [q for q in list(self.kind) if q[:len(a)] == a]:
            nq = b + q[len(a):]
            self.kind[nq] = self.kind.pop(q)
            self.ino[nq] = self.ino.pop(q)

    def files(self):
        return [p for p, k in self.kind.items() if k == "file"]

    def dirs(self):
        return [p for p, k in self.kind.items() if k == "dir"]


def fs(op, p, **kw):
    d = {"s": "fs", "op": op, "p": list(p)}
    for k, v in kw.items():
        d[k] = list(v) if isinstance(v, tuple) else v
    return d


def call(w, op, path=None, sp="rel", rnd=None, t="t1", **kw):
    d = {"s": "call", "w": w, "t": t, "op": op}
    if path is not None:
        d["arg"] = arg(path, sp, rnd)
    d.update(kw)
    return d


def recv(w, ch="ev"):
    return {"s": "recv", "w": w, "ch": ch}


def drain(w, free=False, pause_us=0):
    d = {"s": "drain", "w": w}
    if free:
        d["free"] = True
        d["pause_us"] = pause_us
    return d


def fdrain(rnd, w):
    """drain with a consumer pace drawn at random: at quiescence, or free-running with a pause per value"""
    if rnd.random() < 0.5:
        return drain(w)
    return drain(w, True, rnd.choice([0, 0, 20, 100, 500]))


def obs(w):
    return {"s": "obs", "w": w}


def new(w, cap):
    d = {"s": "new", "w": w}
    if cap is not None:
        d["cap"] = cap
    return d


def epilogue(w, close=True, rnd=None):
    st = [fdrain(rnd, w) if rnd else drain(w), call(w, "watchlist"), obs(w)]
    if close:
        st += [call(w, "close"), drain(w), obs(w), call(w, "add", (), "rel"), call(w, "remove", (), "rel"), call(w, "watchlist")]
    return st


NAMES = ["n1", "n2", "n3", "n4"]
DIRS = [("d1",), ("d2",)]


def setup_tree(rnd, f, steps, ndirs=2, nfiles=3, sub=True):
    for d in DIRS[:ndirs]:
        steps.append(fs("mkdir", d))
        f.add(d, "dir")
    for d in DIRS[:ndirs]:
        for n in rnd.sample(NAMES, rnd.randint(0, nfiles)):
            steps.append(fs("create", d + (n,)))
            f.add(d + (n,), "file")
    if sub and rnd.random() < 0.5:
        p = ("d1", "s1")
        steps.append(fs("mkdir", p))
        f.add(p, "dir")


def rand_fs_op(rnd, f, allow_dirs=True):
    """One random, mostly valid, file system step (or None)."""
    dirs = [d for d in f.dirs() if len(d) >= 1]
    files = f.files()
    for _ in range(20):
        op = rnd.choice(["create", "create", "write", "write", "trunc", "chmod", "chmod", "unlink", "unlink", "rename",
                         "rename", "rename", "mkdir", "rmdir", "link", "symlink", "open", "closefd", "fdwrite", "chmoddir", "renamedir"])
        if op == "create":
            d = rnd.choice(dirs + [()])
            p = d + (rnd.choice(NAMES),)
            if not f.exists(p):
                f.add(p, "file")
                return fs("create", p)
        elif op in ("write", "trunc", "chmod") and files:
            p = rnd.choice(files)
            return fs(op, p)
        elif op == "unlink" and files:
            p = rnd.choice(files + [q for q, k in f.kind.items() if k == "symlink"])
            f.rm(p)
            return fs("unlink", p)
        elif op == "rename" and files:
            a = rnd.choice(files)
            d = rnd.choice(dirs + [()])
            b = d + (rnd.choice(NAMES),)
            if a != b and not f.isdir(b):
                f.mv(a, b)
                return fs("rename", a, to=b)
        elif op == "mkdir" and allow_dirs:
            d = rnd.choice(dirs + [()])
            p = d + (rnd.choice(["s1", "s2"]),)
            if not f.exists(p) and len(p) <= 3:
                f.add(p, "dir")
                return fs("mkdir", p)
        elif op == "rmdir" and allow_dirs:
            cand = [d for d in dirs if not f.children(d)]
            if cand:
                p = rnd.choice(cand)
                f.rm(p)
                return fs("rmdir", p)
        elif op == "link" and files:
            a = rnd.choice(files)
            d = rnd.choice(dirs + [()])
            b = d + (rnd.choice(NAMES),)
            if not f.exists(b):
                f.add(b, "file", f.ino[a])
                return fs("link", a, to=b)
        elif op == "symlink":
            d = rnd.choice(dirs + [()])
            p = d + (rnd.choice(["l1", "l2"]),)
            if not f.exists(p) and (files or dirs):
                tgt = rnd.choice(files + dirs)
                f.add(p, "symlink")
                return fs("symlink", p, tgt=arg(tgt, rnd.choice(["abs", "abs", "rel"]) if len(p) == 1 else "abs"))
        elif op == "open" and files and len(f.fds) < 2:
            p = rnd.choice(files)
            name = "f%d" % (len(f.fds) + 1)
            if name not in f.fds:
                f.fds[name] = p
                return fs("open", p, fd=name)
        elif op == "closefd" and f.fds:
            name = rnd.choice(sorted(f.fds))
            del f.fds[name]
            return fs("closefd", (), fd=name)
        elif op == "fdwrite" and f.fds:
            return fs("fdwrite", (), fd=rnd.choice(sorted(f.fds)))
        elif op == "chmoddir" and dirs:
            return fs("chmod", rnd.choice(dirs))
        elif op == "renamedir" and allow_dirs and dirs:
            a = rnd.choice(dirs)
            b = a[:-1] + (rnd.choice(["s1", "s2", "d3"]),)
            if not f.exists(b):
                f.mv(a, b)
                return fs("rename", a, to=b)
    return None


def fam_rand(rnd, i, maxops=12, caps=(0, 0, 1, 2, 64, None), allow_dirs=True, removes=True):
    """Random history over one watcher with varied pacing; ends with drain, WatchList, obs, Close."""
    f = FS()
    steps = []
    setup_tree(rnd, f, steps)
    w = "w1"
    steps.append(new(w, rnd.choice(caps)))
    watched = []
    cands = f.dirs() + f.files()
    rnd.shuffle(cands)
    for p in cands[:rnd.randint(1, 4)]:
        steps.append(call(w, "add", p, rnd.choice(SPELLINGS), rnd))
        watched.append(p)
    pace = rnd.choice(["immediate", "delayed", "bursty", "one"])
    for _ in range(rnd.randint(3, maxops)):
        r = rnd.random()
        if r < 0.72:
            st = rand_fs_op(rnd, f, allow_dirs)
            if st:
                steps.append(st)
        elif r < 0.80:
            cands = f.dirs() + f.files()
            if cands:
                p = rnd.choice(cands)
                steps.append(call(w, "add", p, rnd.choice(SPELLINGS), rnd))
                watched.append(p)
        elif r < 0.86 and removes and watched:
            p = rnd.choice(watched)
            steps.append(call(w, "remove", p, rnd.choice(SPELLINGS), rnd))
        elif r < 0.92:
            steps.append(call(w, "watchlist"))
        else:
            steps.append(obs(w))
        if pace == "immediate":
            steps.append(fdrain(rnd, w))
        elif pace == "delayed" and rnd.random() < 0.4:
            steps.append(recv(w))
        elif pace == "one":
            steps.append(recv(w))
    steps += epilogue(w, close=rnd.random() < 0.7, rnd=rnd)
    return steps


def fam_burst(rnd, i, ks=(2, 3, 17, 240, 700), big=False):
    """Reader parked on an unreceived event, then a burst of k pattern instances, then drain:
    the decode loop runs at every offset of a multi-event read and across read boundaries."""
    steps = [fs("mkdir", ("d1",)), fs("create", ("d1", "n1"))]
    w = "w1"
    cap = rnd.choice([0, 0, 1, 4])
    steps.append(new(w, cap))
    steps.append(call(w, "add", ("d1",), rnd.choice(SPELLINGS), rnd))
    steps.append(fs("chmod", ("d1", "n1")))       # left unreceived: the reader parks in its send
    for _ in range(cap):
        steps.append(fs("write", ("d1", "n1")))
    k = rnd.choice(ks)
    pats = [
        [fs("create", ("d1", "x%"))],
        [fs("create", ("d1", "x%")), fs("write", ("d1", "x%"))],
        [fs("create", ("d1", "x%")), fs("chmod", ("d1", "x%")), fs("unlink", ("d1", "x%"))],
        [fs("create", ("d1", "x%")), fs("rename", ("d1", "x%"), to=("d1", "y%"))],
        [fs("mkdir", ("d1", "x%")), fs("rmdir", ("d1", "x%"))],
    ]
    steps.append({"s": "rep", "k": k, "pat": rnd.choice(pats)})
    if rnd.random() < 0.5:
        steps.append(recv(w))
        steps.append(obs(w))
    steps += epilogue(w, close=rnd.random() < 0.3, rnd=rnd)
    return steps


def fam_paced(rnd, i):
    """Consumer paces: a small buffer, a burst with nobody reading, then a slow-but-steady free-running
    consumer, so that slots free up while the reader is still inside one read batch."""
    w = "w1"
    cap = rnd.choice([1, 2, 4, 4, 16, 64])
    steps = [fs("mkdir", ("d1",)), fs("mkdir", ("d2",)), fs("create", ("d1", "n1")), new(w, cap), call(w, "add", ("d1",), rnd.choice(SPELLINGS), rnd)]
    if rnd.random() < 0.4:
        steps.append(call(w, "add", ("d2",), "rel"))
    pats = [
        [fs("create", ("d1", "x%"))],
        [fs("create", ("d1", "x%")), fs("write", ("d1", "x%"))],
        [fs("create", ("d1", "x%")), fs("rename", ("d1", "x%"), to=("d1", "y%"))],
        [fs("create", ("d1", "x%")), fs("rename", ("d1", "x%"), to=("d2", "y%")), fs("create", ("d1", "x%"))],
        [fs("create", ("d1", "x%")), fs("chmod", ("d1", "x%")), fs("unlink", ("d1", "x%"))],
    ]
    steps.append({"s": "rep", "k": rnd.choice([40, 300, 1500]), "pat": rnd.choice(pats)})
    steps.append(drain(w, True, rnd.choice([0, 10, 20, 50, 200])))
    steps += [drain(w), call(w, "watchlist"), obs(w)]
    return steps


def fam_lag(rnd, i):
    """Two-step histories whose second step invalidates a kernel watch before the record of the
    first has been processed (reader held back by an unreceived event), followed by each control
    call with nobody receiving, then a drain."""
    steps = [fs("mkdir", ("d1",)), fs("create", ("d1", "n1")), fs("create", ("d1", "n2")), fs("mkdir", ("d1", "s1"))]
    w = "w1"
    cap = rnd.choice([0, 0, 0, 1, 2])
    steps.append(new(w, cap))
    tgt = rnd.choice([("d1", "n1"), ("d1", "s1")])
    isdir = tgt == ("d1", "s1")
    steps.append(call(w, "add", tgt, rnd.choice(SPELLINGS), rnd))
    if rnd.random() < 0.5:
        steps.append(call(w, "add", ("d1",), rnd.choice(SPELLINGS), rnd))
    # park the reader: cap+1 events pending, nobody receives
    hold = rnd.random() < 0.8
    if hold:
        for _ in range(cap + 1):
            steps.append(fs("chmod", tgt))
            steps.append(fs("chmod", ("d1", "n2")))
    hist = rnd.choice(["mv_rm", "mv_rm", "rm_remove", "mv_remove", "mv_mvback", "rm_recreate_add", "mv_write", "rm_only", "mv_only", "mv_over",
                       "rm_readd_fails", "mv_readd_fails"])
    moved = ("d1", "m1")
    if hist == "mv_rm":
        steps += [fs("rename", tgt, to=moved), fs("rmdir" if isdir else "unlink", moved)]
    elif hist == "rm_remove":
        steps += [fs("rmdir" if isdir else "unlink", tgt), call(w, "remove", tgt, "rel")]
    elif hist == "mv_remove":
        steps += [fs("rename", tgt, to=moved), call(w, "remove", tgt, "rel")]
    elif hist == "mv_mvback":
        steps += [fs("rename", tgt, to=moved), fs("rename", moved, to=tgt)]
    elif hist == "rm_recreate_add":
        steps += [fs("rmdir" if isdir else "unlink", tgt), fs("mkdir" if isdir else "create", tgt), call(w, "add", tgt, "rel")]
    elif hist == "mv_write":
        steps += [fs("rename", tgt, to=moved), fs("chmod", moved)]
    elif hist == "rm_only":
        steps += [fs("rmdir" if isdir else "unlink", tgt)]
    elif hist == "mv_only":
        steps += [fs("rename", tgt, to=moved)]
    elif hist == "mv_over":
        steps += [fs("rename", ("d1", "n2"), to=tgt)] if not isdir else [fs("rename", tgt, to=moved)]
    elif hist == "rm_readd_fails":
        # the listed path is added again although it is gone: the Add fails, and what is still queued for the old watch is delivered
        steps += [fs("rmdir" if isdir else "unlink", tgt), call(w, "add", tgt, "rel")]
    elif hist == "mv_readd_fails":
        steps += [fs("rename", tgt, to=moved), call(w, "add", tgt, "rel")]
    # consumer behaviour while the control calls are made
    beh = rnd.choice(["none", "one", "events_only", "all"])
    if beh == "one":
        steps.append(recv(w))
    elif beh == "events_only":
        for _ in range(cap + 4):
            steps.append(recv(w))
    elif beh == "all":
        steps.append(drain(w))
    ctl = rnd.sample(["watchlist", "add", "remove", "close"], rnd.randint(1, 3))
    if "close" in ctl:                      # Close last
        ctl.remove("close")
        ctl.append("close")
    steps.append(obs(w))
    for c in ctl:
        if c == "watchlist":
            steps.append(call(w, "watchlist"))
        elif c == "add":
            steps.append(call(w, "add", ("d1", "n2"), "rel"))
        elif c == "remove":
            steps.append(call(w, "remove", ("d1",), "rel"))
        else:
            steps.append(call(w, "close"))
    steps += [drain(w), call(w, "watchlist"), obs(w)]
    if "close" not in ctl:
        steps += [call(w, "close"), drain(w), obs(w)]
    return steps


def fam_close(rnd, i):
    """Close at every kind of position: idle, mid-burst, reader parked in a send, buffered events
    present, several Close calls (also concurrently), followed by receives until both channels are
    closed and by the three API calls."""
    steps = [fs("mkdir", ("d1",)), fs("create", ("d1", "n1"))]
    w = "w1"
    cap = rnd.choice([0, 0, 1, 2, 8, 64, None])
    steps.append(new(w, cap))
    steps.append(call(w, "add", ("d1",), rnd.choice(SPELLINGS), rnd))
    if rnd.random() < 0.5:
        steps.append(call(w, "add", ("d1", "n1"), rnd.choice(SPELLINGS), rnd))
    if rnd.random() < 0.3:
        steps.append({"s": "spawn"})        # a child process started now must not inherit the notification descriptor
    pos = rnd.choice(["idle", "pending", "pending", "burst", "buffered", "after_drain"])
    f = FS()
    f.add(("d1",), "dir")
    f.add(("d1", "n1"), "file")
    if pos in ("pending", "buffered", "after_drain"):
        for _ in range(rnd.randint(1, 6)):
            st = rand_fs_op(rnd, f, allow_dirs=False)
            if st:
                steps.append(st)
        if pos == "after_drain":
            steps.append(drain(w))
        elif rnd.random() < 0.5:
            steps.append(recv(w))
    elif pos == "burst":
        steps.append({"s": "rep", "k": rnd.choice([5, 50, 300]), "pat": [fs("create", ("d1", "x%")), fs("unlink", ("d1", "x%"))]})
        if rnd.random() < 0.5:
            steps.append(recv(w))
    mode = rnd.choice(["sync", "sync", "double", "async2", "async_then_calls"])
    if mode == "sync":
        steps.append(call(w, "close"))
    elif mode == "double":
        steps += [call(w, "close"), call(w, "close"), call(w, "close")]
    elif mode == "async2":
        steps += [call(w, "close", t="t2", **{"async": True}), call(w, "close", t="t3", **{"async": True}),
                  {"s": "join", "t": "t2"}, {"s": "join", "t": "t3"}]
    else:
        steps += [call(w, "close", t="t2", **{"async": True}), call(w, "watchlist"), {"s": "join", "t": "t2"}]
    # more activity after Close: nothing of it may be reported
    for _ in range(rnd.randint(0, 3)):
        st = rand_fs_op(rnd, f, allow_dirs=False)
        if st:
            steps.append(st)
    steps += [drain(w), obs(w), call(w, "add", ("d1",), "rel"), call(w, "remove", ("d1",), "rel"), call(w, "watchlist"),
              call(w, "close"), obs(w)]
    return steps


# ---------------------------------------------------------------- watch-set universe (C04, C12, C09)

WS_PATHS = {
    "f1": ("f1",), "f2": ("f2",), "d1": ("d1",), "lf": ("lf",), "ld": ("ld",), "h1": ("h1",),
    "miss": ("zz",), "nondir": ("f1", "x"), "loop": ("lp",), "long": ("LONG",), "sub": ("d1", "n1"),
}


def ws_setup():
    return [fs("create", ("f1",)), fs("create", ("f2",)), fs("mkdir", ("d1",)), fs("create", ("d1", "n1")),
            fs("symlink", ("lf",), tgt={"abs": False, "c": ["f1"]}), fs("symlink", ("ld",), tgt={"abs": True, "c": ["d1"]}),
            fs("link", ("f1",), to=("h1",)), fs("symlink", ("lp",), tgt={"abs": False, "c": ["lp"]})]


def ws_actions():
    acts = []
    for name in WS_PATHS:
        acts.append(("add", name))
        acts.append(("remove", name))
    acts.append(("watchlist", None))
    # re-pointing / ending file system operations
    acts += [("fsx", "retarget_lf_f2"), ("fsx", "retarget_lf_f1"), ("fsx", "rm_recreate_f1"), ("fsx", "mv_f2_f1"), ("fsx", "rm_f2"),
             ("fsx", "mv_d1_away_back"), ("fsx", "rm_h1"), ("fsx", "chmod_f1"), ("fsx", "touch_d1")]
    return acts


def ws_step(act, rnd, w="w1"):
    kind, x = act
    if kind in ("add", "remove"):
        p = WS_PATHS[x]
        sp = rnd.choice(SPELLINGS) if x not in ("long", "loop", "miss", "nondir") else rnd.choice(["abs", "rel", "dot"])
        return [call(w, kind, p, sp, rnd)]
    if kind == "watchlist":
        return [call(w, "watchlist"), obs(w)]
    if x == "retarget_lf_f2":
        return [fs("unlink", ("lf",)), fs("symlink", ("lf",), tgt={"abs": False, "c": ["f2"]})]
    if x == "retarget_lf_f1":
        return [fs("unlink", ("lf",)), fs("symlink", ("lf",), tgt={"abs": True, "c": ["f1"]})]
    if x == "rm_recreate_f1":
        return [fs("unlink", ("f1",)), fs("create", ("f1",))]
    if x == "mv_f2_f1":
        return [fs("rename", ("f2",), to=("f1",)), fs("create", ("f2",))]
    if x == "rm_f2":
        return [fs("unlink", ("f2",))]
    if x == "mv_d1_away_back":
        return [fs("rename", ("d1",), to=("d9",)), fs("mkdir", ("d1",))]
    if x == "rm_h1":
        return [fs("unlink", ("h1",))]
    if x == "chmod_f1":
        return [fs("chmod", ("f1",))]
    if x == "touch_d1":
        return [fs("create", ("d1", "n2")), fs("unlink", ("d1", "n2"))]
    raise ValueError(act)


def fam_watchset_seq(seqacts, rnd, drain_each=True):
    w = "w1"
    steps = ws_setup() + [new(w, rnd.choice([0, 0, 2]))]
    for a in seqacts:
        steps += ws_step(a, rnd)
        if drain_each:
            steps.append(drain(w))
    steps += [drain(w), call(w, "watchlist"), obs(w), fs("chmod", ("f1",)), fs("chmod", ("f2",)), fs("create", ("d1", "n3")),
              drain(w), call(w, "close"), drain(w), obs(w)]
    return steps


def fam_watchset_random(rnd, i, kmax=8):
    acts = ws_actions()
    k = rnd.randint(2, kmax)
    return fam_watchset_seq([rnd.choice(acts) for _ in range(k)], rnd, drain_each=rnd.random() < 0.8)


def watchset_exhaustive(k, rnd, sample=None):
    """All action sequences of length k over a reduced alphabet (one spelling drawn per call)."""
    core = [("add", "f1"), ("add", "lf"), ("add", "h1"), ("add", "f2"), ("add", "d1"), ("add", "miss"),
            ("remove", "f1"), ("remove", "lf"), ("remove", "f2"), ("remove", "miss"),
            ("fsx", "retarget_lf_f2"), ("fsx", "rm_recreate_f1"), ("fsx", "mv_f2_f1"), ("watchlist", None)]
    seqs = list(itertools.product(core, repeat=k))
    if sample is not None and sample < len(seqs):
        seqs = rnd.sample(seqs, sample)
    for s in seqs:
        yield fam_watchset_seq(list(s), rnd)


def fam_cycle(rnd, i, n=200):
    """add / remove / delete / recreate / re-add cycles; sizes are observed at start and end."""
    w = "w1"
    shape = rnd.choice(["add_remove", "delete_readd", "rename_readd", "hardlink_keep", "openfd_keep", "dir_cycle"])
    steps = [fs("mkdir", ("d1",)), fs("create", ("d1", "n1")), new(w, rnd.choice([0, 4])), call(w, "add", ("d1",), "rel"), drain(w), obs(w)]
    p = ("d1", "n1")
    if shape == "add_remove":
        body = [call(w, "add", p, "rel"), call(w, "remove", p, "abs"), drain(w)]
    elif shape == "delete_readd":
        body = [call(w, "add", p, "rel"), fs("unlink", p), drain(w), fs("create", p), drain(w)]
    elif shape == "rename_readd":
        body = [call(w, "add", p, "rel"), fs("rename", p, to=("d1", "n2")), drain(w), fs("rename", ("d1", "n2"), to=p), drain(w)]
    elif shape == "hardlink_keep":
        body = [call(w, "add", p, "rel"), fs("link", p, to=("d1", "h")), fs("unlink", p), fs("create", p), call(w, "add", p, "rel"),
                fs("unlink", ("d1", "h")), drain(w), call(w, "remove", p, "rel"), drain(w)]
    elif shape == "openfd_keep":
        body = [call(w, "add", p, "rel"), fs("open", p, fd="f1"), fs("unlink", p), fs("create", p), call(w, "add", p, "rel"),
                fs("closefd", (), fd="f1"), drain(w), call(w, "remove", p, "rel"), drain(w)]
    else:
        q = ("d1", "s1")
        body = [fs("mkdir", q), call(w, "add", q, "rel"), fs("create", q + ("n1",)), fs("unlink", q + ("n1",)), fs("rmdir", q), drain(w)]
    steps.append({"s": "loop", "n": n, "body": body})
    steps += [drain(w), call(w, "watchlist"), obs(w), call(w, "close"), drain(w), obs(w)]
    return steps


def fam_newclose(rnd, i, n=200):
    """create/close loops, and NewWatcher failing at its first syscall (descriptor limit)."""
    w = "w1"
    steps = [fs("mkdir", ("d1",)), fs("create", ("d1", "n1"))]
    body = [new(w, rnd.choice([0, 1, None])), call(w, "add", ("d1",), "rel"), call(w, "add", ("d1", "n1"), "rel"),
            fs("chmod", ("d1", "n1")), call(w, "close"), drain(w)]
    if rnd.random() < 0.5:
        body.insert(4, recv(w))
    steps.append({"s": "loop", "n": n, "body": body})
    steps += [new(w, 0), call(w, "add", ("d1",), "rel"), {"s": "spawn"}, call(w, "close"), drain(w)]
    steps.append(obs(w))
    fail = {"s": "new", "w": "w2", "cap": 0, "nofile": 1}
    steps += [fail, fail, {"s": "new", "w": "w3"}, obs("w3"), call("w3", "close"), drain("w3"), obs("w3")]
    return steps


def fam_overflow(rnd, i, extra=(6,)):
    """Reader parked, more distinct records than fs.inotify.max_queued_events, then drain."""
    w = "w1"
    maxq = 16384
    k = maxq + rnd.choice(extra)
    steps = [fs("mkdir", ("d1",)), fs("create", ("d1", "n1")), new(w, 0), call(w, "add", ("d1",), "rel"),
             fs("chmod", ("d1", "n1")), {"s": "rep", "k": k, "pat": [fs("create", ("d1", "x%"))]},
             call(w, "watchlist"), drain(w), obs(w),
             fs("create", ("d1", "n2")), fs("write", ("d1", "n2")), call(w, "add", ("d1", "n2"), "rel"), fs("chmod", ("d1", "n2")),
             call(w, "remove", ("d1", "n2"), "rel"), drain(w), call(w, "watchlist"), obs(w), call(w, "close"), drain(w), obs(w)]
    return steps


def fam_ovfend(rnd, i):
    """Watched files are deleted while the kernel queue is full (the reader is parked, more than max_queued_events records):
    the records that end their watches are dropped with everything else.  Afterwards - ErrEventOverflow received, stream
    drained - the watch set, WatchList and the tables should not keep them for ever."""
    w = "w1"
    k = 16384 + rnd.choice([20, 200])
    files = [("d1", "w%d" % j) for j in range(1, rnd.randint(2, 4))]
    steps = [fs("mkdir", ("d1",))] + [fs("create", f) for f in files] + [new(w, 0)] + [call(w, "add", f, "rel") for f in files]
    steps += [call(w, "add", ("d1",), "rel"), fs("chmod", files[0]), {"s": "rep", "k": k, "pat": [fs("create", ("d1", "x%"))]}]
    steps += [fs("unlink", f) for f in files]
    steps += [drain(w), call(w, "watchlist"), obs(w), fs("create", ("d1", "after")), drain(w), call(w, "watchlist"), obs(w),
              call(w, "close"), drain(w), obs(w)]
    return steps


def fam_ovfstall(rnd, i, mode=None):
    """Overflow, then the consumer drains Events only and never looks at Errors while control calls are made."""
    w = "w1"
    k = 16384 + rnd.choice([6, 50])
    ctl = rnd.sample(["watchlist", "add", "remove"], 2)
    steps = [fs("mkdir", ("d1",)), fs("create", ("d1", "n1")), new(w, rnd.choice([0, 0, 8])), call(w, "add", ("d1",), "rel"),
             fs("chmod", ("d1", "n1")), {"s": "rep", "k": k, "pat": [fs("create", ("d1", "x%"))]},
             {"s": "drain", "w": w, "only": "ev"}, obs(w)]
    for c in ctl:
        if c == "watchlist":
            steps.append(call(w, "watchlist"))
        elif c == "add":
            steps.append(call(w, "add", ("d1", "n1"), "rel"))
        else:
            steps.append(call(w, "remove", ("d1",), "rel"))
    if mode == "close" or (mode is None and rnd.random() < 0.5):
        steps += [call(w, "close"), drain(w), obs(w)]
    else:
        steps += [drain(w), call(w, "watchlist"), obs(w), call(w, "close"), drain(w), obs(w)]
    return steps


def fam_ovflate(rnd, i):
    """Overflow, partial catch-up (the reader reads again, the queue has room), then new activity that is
    queued behind the overflow marker, then drain: the late events must arrive after ErrEventOverflow."""
    w = "w1"
    k = 16384 + rnd.choice([6, 300, 2000])
    steps = [fs("mkdir", ("d1",)), fs("create", ("d1", "n1")), new(w, 0), call(w, "add", ("d1",), "rel")]
    big = i % 2 == 1        # a second Watcher on the same directory whose buffer takes everything: it never overflows (C14)
    if big:
        steps += [new("w2", 65536), call("w2", "add", ("d1",), "rel")]
    steps += [fs("chmod", ("d1", "n1")), {"s": "rep", "k": k, "pat": [fs("chmod", ("d1", "n1")), fs("write", ("d1", "n1"))]}, obs(w)]
    steps.append({"s": "drain", "w": w, "only": "ev", "max": rnd.choice([300, 2500, 2500, 5000])})
    steps += [obs(w), fs("chmod", ("d1",)), fs("create", ("d1", "late1")), fs("create", ("d1", "late2")), fs("unlink", ("d1", "late1")),
              drain(w), call(w, "watchlist"), obs(w), fs("create", ("d1", "n2")), call(w, "add", ("d1", "n2"), "rel"), fs("chmod", ("d1", "n2")),
              call(w, "remove", ("d1", "n2"), "rel"), drain(w), obs(w)]
    if big:
        steps += [drain("w2"), obs("w2"), call("w2", "close"), drain("w2"), obs("w2")]
    steps += [call(w, "close"), drain(w), obs(w)]
    return steps


def fam_cwd(rnd, i):
    """The watched directory is the working directory itself, added as ".", "./" or "sub/.."; entries change, then
    the directory is removed from outside and the process leaves it (only then the kernel reports DELETE_SELF)."""
    w = "w1"
    steps = [fs("mkdir", ("w",)), fs("mkdir", ("w", "sub")), fs("create", ("w", "n1")), {"s": "chdir", "p": ["w"]}, new(w, rnd.choice([0, 0, 4]))]
    a = rnd.choice([{"abs": False, "c": []}, {"abs": False, "c": ["."]}, {"abs": False, "c": [".", ""]}, {"abs": False, "c": ["sub", ".."]}])
    steps.append({"s": "call", "w": w, "t": "t1", "op": "add", "arg": a})
    if rnd.random() < 0.3:
        steps.append({"s": "call", "w": w, "t": "t1", "op": "add", "arg": {"abs": False, "c": ["n1"]}})
    for st in [fs("create", ("w", "n2")), fs("write", ("w", "n1")), fs("chmod", ("w", "n1")), fs("rename", ("w", "n2"), to=("w", "n3")), fs("unlink", ("w", "n3")),
               fs("chmod", ("w",))][:rnd.randint(2, 6)]:
        steps.append(st)
        if rnd.random() < 0.6:
            steps.append(drain(w))
    steps += [drain(w), call(w, "watchlist"), obs(w), fs("rmrf", ("w",)), {"s": "chdir", "p": []}, drain(w), call(w, "watchlist"), obs(w),
              {"s": "call", "w": w, "t": "t1", "op": "remove", "arg": a}, call(w, "close"), drain(w), obs(w)]
    return steps


def fam_readfault(rnd, i):
    """Fault: read(2) on the inotify descriptor fails once (pending error, reader parked sending it), then ordinary
    activity and Close: the error is reported, the stream goes on, Close releases everything."""
    w = "w1"
    steps = [fs("mkdir", ("d1",)), fs("create", ("d1", "n1")), new(w, rnd.choice([0, 0, 2])), call(w, "add", ("d1",), "rel")]
    if rnd.random() < 0.5:
        steps += [fs("chmod", ("d1", "n1")), drain(w)]
    if rnd.random() < 0.12:
        # a long run of failing reads, each one received, then Close: it returns at once however many reads failed before
        steps += [{"s": "fault", "w": w, "recurse": True}] + [recv(w, "err") for _ in range(15)] + [{"s": "fault", "w": w, "recurse": False}]
        steps += [call(w, "close"), drain(w), obs(w)]
        return steps
    steps += [{"s": "fault", "w": w, "recurse": True}, {"s": "fault", "w": w, "recurse": False}]
    mode = rnd.choice(["drain_then_close", "close_pending", "calls_pending", "late_close"])
    if mode == "drain_then_close":
        steps += [drain(w), fs("create", ("d1", "n2")), drain(w), call(w, "watchlist"), obs(w), call(w, "close"), drain(w), obs(w)]
    elif mode == "close_pending":
        steps += [call(w, "close"), drain(w), obs(w)]
    elif mode == "calls_pending":
        steps += [call(w, "watchlist"), call(w, "add", ("d1", "n1"), "rel"), call(w, "remove", ("d1", "n1"), "rel"), drain(w), call(w, "close"), drain(w), obs(w)]
    else:
        steps += [drain(w), obs(w), fs("chmod", ("d1", "n1")), drain(w), obs(w), call(w, "close"), drain(w), obs(w)]
    return steps


def fam_recerr(rnd, i):
    """Recursive watch: a new directory is replaced by a symbolic link to itself before the (lagging) reader gets to
    its Create, so that watching it fails with ELOOP: the reader is parked reporting that while the consumer looks at
    Events only.  Control calls must come back, the error must be delivered, the stream and Close must go on."""
    w = "w1"
    sp = rnd.choice(["rel", "abs"])
    steps = [{"s": "recurse", "recurse": True}, fs("mkdir", ("r",)), fs("mkdir", ("r", "sub")), new(w, rnd.choice([0, 0, 1])),
             call(w, "add", ("r",), sp, recurse=True), drain(w)]
    d = rnd.choice([("r",), ("r", "sub")])
    x = d + ("x",)
    shape = rnd.random()
    if shape < 0.15:
        # a recursive Add that fails - the root is a regular file, or missing: it returns its error, nothing is left behind, and
        # every later call comes back
        bad = rnd.choice([("r", "plain"), ("r", "nope"), ("r", "sub", "plain")])
        steps += [fs("create", ("r", "plain")), fs("create", ("r", "sub", "plain")), drain(w), call(w, "add", bad, sp, recurse=True),
                  call(w, "watchlist"), fs("create", ("r", "sub", "f1")), drain(w), call(w, "remove", ("r", "nothere"), "rel"), obs(w),
                  call(w, "close"), drain(w), obs(w), {"s": "recurse", "recurse": False}]
        return steps
    if shape < 0.30:
        # Remove of the tree while several of its directories have just been deleted (the reader is parked, nobody looks at
        # Errors): whatever inotify_rm_watch answers for the vanished ones, Remove returns
        subs = [("r", "g%d" % k) for k in range(rnd.randint(2, 4))]
        steps += [st for g in subs for st in (fs("mkdir", g), drain(w))]
        steps += [fs("create", ("r", "f0")), fs("chmod", ("r", "f0"))] + [fs("rmdir", g) for g in subs[:rnd.randint(2, len(subs))]]
        steps += [{"s": "drain", "w": w, "only": "ev", "max": 1}, call(w, "remove", ("r",), sp, recurse=True), call(w, "watchlist"),
                  call(w, "add", ("r", "sub"), "rel"), drain(w), obs(w), fs("create", ("r", "after")), drain(w),
                  call(w, "close"), drain(w), obs(w), {"s": "recurse", "recurse": False}]
        return steps
    # an earlier event holds the reader back (nobody is receiving)
    steps += [fs("create", d + ("f0",)), fs("chmod", d + ("f0",)), fs("chmod", d + ("f0",))]
    if rnd.random() < 0.4:
        # ... or by a regular file: it must not be taken for the new directory (no watch on it: its changes are reported once,
        # by the directory's watch), and nothing goes on Errors
        moved = rnd.random() < 0.3
        steps += [fs("mkdir", x)] + ([fs("rename", x, to=d + ("xgone",))] if moved else [fs("rmdir", x)]) + [fs("create", x)]
        steps += [drain(w), obs(w), fs("write", x), drain(w), fs("chmod", x), drain(w), obs(w), call(w, "close"), drain(w), obs(w),
                  {"s": "recurse", "recurse": False}]
        return steps
    # a fault at the registration of the new directory: the recorded flags of its parent's watch are made invalid
    # (hook), inotify_add_watch fails with EINVAL, and the reader has that error to report while only Events is drained
    steps += [{"s": "wflags", "w": w, "arg": arg(d, sp), "ops": 0x30000000}, fs("mkdir", x)]   # IN_MASK_ADD|IN_MASK_CREATE: rejected by the kernel
    steps += [{"s": "drain", "w": w, "only": "ev"}]
    mode = rnd.choice(["calls", "calls", "close", "late"])
    if mode == "calls":
        for c in rnd.sample(["watchlist", "add", "remove"], 2):
            if c == "watchlist":
                steps.append(call(w, "watchlist"))
            elif c == "add":
                # (not the directory whose recorded flags the fault point has made invalid: re-adding that one fails by construction)
                steps.append(call(w, "add", ("r",) if d == ("r", "sub") else ("r", "sub"), "rel"))
            else:
                steps.append(call(w, "remove", ("r", "nothere"), "rel"))
        # (x is not renamed: registering it under a new name would fail again at the same fault point)
        steps += [drain(w), fs("create", d + ("f1",)), drain(w), fs("chmod", x), drain(w), obs(w),
                  call(w, "close"), drain(w), obs(w)]
    elif mode == "close":
        steps += [call(w, "close"), drain(w), obs(w)]
    else:
        steps += [drain(w), obs(w), fs("create", d + ("f1",)), drain(w), obs(w),
                  call(w, "close"), drain(w), obs(w)]
    steps.append({"s": "recurse", "recurse": False})
    return steps


def fam_wlpark(rnd, i):
    """WatchList taken while the reader is parked sending the very event that ends a watch (unbuffered Watcher): by then it
    has handled that record, so the list must not show the watch any more - whatever housekeeping record is still queued
    behind it.  Deterministic: the consumer receives one event at a time until the reader sits on the Remove / Rename."""
    w = "w1"
    steps = [fs("mkdir", ("d1",)), fs("create", ("d1", "n1")), fs("mkdir", ("d1", "s1")), new(w, 0)]
    tgt = rnd.choice([("d1", "n1"), ("d1", "n1"), ("d1", "s1")])
    isdir = tgt == ("d1", "s1")
    steps.append(call(w, "add", tgt, rnd.choice(["rel", "abs", "dot"]), rnd))
    pre = rnd.randint(0, 2)
    for _ in range(pre):
        steps += [fs("chmod", tgt), recv(w)]                    # received at once: no merging with what follows
    how = rnd.choice(["delete", "delete", "move"])
    if how == "delete":
        steps.append(fs("rmdir" if isdir else "unlink", tgt))
        if not isdir:
            steps.append(recv(w))                               # the Chmod of the link count; now the reader is parked on the Remove
    else:
        steps.append(fs("rename", tgt, to=("d1", "gone")))      # parked on the Rename
    steps += [obs(w), call(w, "watchlist"), recv(w), drain(w), call(w, "watchlist"), obs(w)]
    if rnd.random() < 0.5:
        steps += [fs("mkdir" if isdir else "create", tgt), call(w, "add", tgt, "rel"), fs("chmod", tgt), drain(w), call(w, "watchlist"), obs(w)]
    steps += epilogue(w)
    return steps


def fam_dselfskip(rnd, i):
    """The end of a file's own watch while a directory that looks like its parent is watched too: the Remove may be left to
    that directory's watch only if it really reports one.  Three histories in which it does not: the directory was added
    after the unlink (descriptor held open); the watched path is a symbolic link in the watched directory, the file lives
    elsewhere; the file is replaced by a rename (the directory reports a move, not a removal)."""
    w = "w1"
    steps = [fs("mkdir", ("d1",)), fs("mkdir", ("d2",)), fs("create", ("d1", "n1")), fs("create", ("d1", "n2")), new(w, rnd.choice([0, 0, 4]))]
    sp = rnd.choice(["rel", "abs"])
    how = rnd.choice(["late_parent", "via_link", "overwrite"])
    if how == "late_parent":
        steps += [call(w, "add", ("d1", "n1"), sp), fs("open", ("d1", "n1"), fd="f1"), fs("unlink", ("d1", "n1")), drain(w),
                  call(w, "add", ("d1",), sp), fs("closefd", (), fd="f1"), drain(w)]
    elif how == "via_link":
        steps += [fs("symlink", ("d2", "l"), tgt={"abs": True, "c": ["d1", "n1"]}), call(w, "add", ("d2", "l"), sp), call(w, "add", ("d2",), sp), drain(w),
                  fs("unlink", ("d1", "n1")), drain(w)]
    else:
        steps += [call(w, "add", ("d1", "n1"), sp), call(w, "add", ("d1",), sp), drain(w), fs("rename", ("d1", "n2"), to=("d1", "n1")), drain(w)]
    steps += [call(w, "watchlist"), obs(w)]
    steps += epilogue(w)
    return steps


def fam_heldparent(rnd, i):
    """A file and its directory watched by one Watcher; the file's inode outlives its name (a descriptor held open, or
    a second hard link in or outside the directory) while the name is created again: the Remove of the old incarnation
    comes from the directory at unlink time, before the Create of the new one; the end of the inode later reports
    nothing more, and the next removal of the name is reported again."""
    w = "w1"
    p, d = ("d1", "n1"), ("d1",)
    sp = rnd.choice(["rel", "abs"])
    steps = [fs("mkdir", d), fs("mkdir", ("u",)), fs("create", p), new(w, rnd.choice([0, 0, 1, 64]))]
    adds = [call(w, "add", d, sp), call(w, "add", p, sp)]
    rnd.shuffle(adds)
    steps += adds + [drain(w)]
    how = rnd.choice(["fd", "fd", "link_out", "link_in"])
    h = ("u", "h") if how == "link_out" else ("d1", "h")
    steps.append(fs("open", p, fd="f1") if how == "fd" else fs("link", p, to=h))
    pace = rnd.choice(["each", "end", "end"])
    body = [fs("unlink", p), fs("create", p), fs("write", p)]
    if rnd.random() < 0.4:
        body.append(call(w, "add", p, sp))
    body.append(fs("closefd", (), fd="f1") if how == "fd" else fs("unlink", h))
    body += [fs("chmod", p), fs("unlink", p)]
    if rnd.random() < 0.5:
        body += [fs("create", p), fs("unlink", p)]
    for st in body:
        steps.append(st)
        if pace == "each":
            steps.append(drain(w))
    steps += [drain(w), call(w, "watchlist"), obs(w)]
    steps += epilogue(w)
    return steps


def fam_reops(rnd, i):
    """The same path added several times with different withOps filters: the watch reports the union of what was asked
    for (the kernel mask is added to, never replaced), and it still ends when the path is renamed or deleted if any of
    the Adds asked for Rename / Remove."""
    w = "w1"
    isdir = rnd.random() < 0.4
    p = ("d1",) if isdir else ("d1", "n1")
    ALL = 0x1f
    narrow = [2, 16, 2 | 16, 1, 4, 8, 2 | 4, 16 | 8]
    shape = rnd.choice(["narrow_all_narrow", "narrow_all_narrow", "all_narrow", "narrow_narrow_all", "random"])
    if shape == "narrow_all_narrow":
        seq = [rnd.choice(narrow), ALL, rnd.choice(narrow)]
    elif shape == "all_narrow":
        seq = [ALL, rnd.choice(narrow), rnd.choice(narrow)]
    elif shape == "narrow_narrow_all":
        seq = [rnd.choice(narrow), rnd.choice(narrow), ALL]
    else:
        seq = [rnd.randrange(1, 32) for _ in range(rnd.randint(2, 4))]
    steps = [fs("mkdir", ("d1",)), fs("mkdir", ("u",)), fs("create", ("d1", "n1")), new(w, rnd.choice([0, 0, 4]))]
    sp = rnd.choice(["rel", "abs"])
    for k, o in enumerate(seq):
        steps.append(call(w, "add", p, sp, ops=o) if o != ALL or rnd.random() < 0.5 else call(w, "add", p, sp))
        if rnd.random() < 0.3:
            steps += [fs("chmod", p), drain(w)]
    steps.append(obs(w))
    inner = ("d1", "n1")
    act = [fs("write", inner), fs("chmod", inner), fs("chmod", p)]
    rnd.shuffle(act)
    steps += act[:rnd.randint(1, 3)] + [drain(w)]
    moved = ("u", "m")
    end = rnd.choice(["rename", "rename", "delete"])
    if end == "rename":
        steps += [fs("rename", p, to=moved), drain(w)]
        steps += [fs("write", moved + ("n1",) if isdir else moved), drain(w)]
        steps += [fs("mkdir", p), fs("create", inner)] if isdir else [fs("create", p)]
        steps += [fs("write", inner), drain(w)]
    else:
        steps += ([fs("unlink", inner), fs("rmdir", p)] if isdir else [fs("unlink", p)]) + [drain(w)]
        steps += [fs("mkdir", p), fs("create", inner)] if isdir else [fs("create", p)]
        steps += [fs("write", inner), drain(w)]
    steps += [call(w, "watchlist"), obs(w), call(w, "remove", p, sp), drain(w), call(w, "add", p, sp), fs("chmod", inner), drain(w), call(w, "watchlist"), obs(w)]
    steps += epilogue(w)
    return steps


def fam_slowpair(rnd, i, ms=3300):
    """The consumer is away for seconds while the reader is parked between the two halves of a move (sending the Rename):
    the Create that follows must still name the old path - nothing the library remembers may expire by wall-clock time."""
    w = "w1"
    cap = rnd.choice([0, 0, 1, 2])
    steps = [fs("mkdir", ("d1",)), fs("mkdir", ("d2",)), fs("create", ("d1", "a")), new(w, cap), call(w, "add", ("d1",), "rel")]
    two = rnd.random() < 0.5
    if two:
        steps.append(call(w, "add", ("d2",), "rel"))
    steps += [fs("create", ("d1", "p%d" % k)) for k in range(cap)]          # the buffer is exactly full when the Rename is to be sent
    steps += [fs("rename", ("d1", "a"), to=(("d2", "b") if two else ("d1", "b"))), {"s": "sleep", "n": ms}, drain(w)]
    steps += [fs("rename", (("d2", "b") if two else ("d1", "b")), to=("d1", "c")), drain(w), obs(w)]
    steps += epilogue(w)
    return steps


def fam_capsweep(rnd, i):
    """One history, several Watchers that differ only in their buffer size, nobody receiving until the end (C14): entry names
    of 240-255 bytes (one kernel record is then larger than 16 record headers), a move whose Rename finds each buffer
    exactly full for one of the sizes, the consumer away for more than a second."""
    caps = [0, 1, 2] + rnd.sample([4, 8, 14, 16, 64, 1024], 1)
    ws = ["w%d" % (k + 1) for k in range(len(caps))]
    steps = [fs("mkdir", ("d1",)), fs("create", ("d1", "a"))]
    for w, c in zip(ws, caps):
        steps += [new(w, c), call(w, "add", ("d1",), "rel")]
    long1 = "NL%d" % rnd.choice([240, 241, 247, 248, 254, 255])
    j = rnd.choice([0, 1, 2])
    ops = [fs("create", ("d1", "q%d" % k)) for k in range(j)]
    ops += [fs("rename", ("d1", "a"), to=("d1", "b"))]
    tail = [fs("create", ("d1", long1)), fs("write", ("d1", long1)), fs("chmod", ("d1", "b")), fs("rename", ("d1", long1), to=("d1", "NL250")), fs("unlink", ("d1", "b"))]
    if rnd.random() < 0.5:
        steps += ops + [{"s": "sleep", "n": 1200}] + tail
    else:
        steps += tail[:2] + ops + tail[2:]
    for w in ws:
        steps += [drain(w), obs(w)]
    for w in ws:
        steps += [call(w, "close"), drain(w), obs(w)]
    return steps


def fam_rootwatch(rnd, i):
    """The watched directory is the file system root, spelled "/", "//", "/." or "/tmp/..": a change to the root itself is
    reported under the cleaned argument "/" (the only cleaned path that ends in a separator)."""
    w = "w1"
    a = {"abs": False, "c": ["FSROOT"], "raw": rnd.choice(["/", "//", "/.", "/tmp/..", "/./"])}
    steps = [fs("fsroot", ()), new(w, rnd.choice([0, 0, 4])), {"s": "call", "w": w, "t": "t1", "op": "add", "arg": a}]
    for _ in range(rnd.randint(1, 3)):
        steps += [fs("chmodfsroot", ()), drain(w)]
    steps += [call(w, "watchlist"), obs(w), {"s": "call", "w": w, "t": "t1", "op": "remove", "arg": a}, fs("chmodfsroot", ()), drain(w),
              call(w, "watchlist"), call(w, "close"), drain(w), obs(w)]
    return steps


def fam_badarg(rnd, i):
    """Add arguments that no file can have: a NUL byte inside the path.  The Add fails and the watch set stays as it was."""
    w = "w1"
    raw = rnd.choice(["d1/a\x00b", "a\x00", "\x00", "d1\x00/n1"])
    a = {"abs": False, "c": ["BADARG"], "raw": raw}
    steps = [fs("mkdir", ("d1",)), fs("create", ("d1", "n1")), new(w, 0), call(w, "add", ("d1",), "rel"),
             {"s": "call", "w": w, "t": "t1", "op": "add", "arg": a}, call(w, "watchlist"), obs(w),
             {"s": "call", "w": w, "t": "t1", "op": "add", "arg": dict(a, raw=raw + "x")}, call(w, "watchlist"),
             {"s": "call", "w": w, "t": "t1", "op": "remove", "arg": a}, fs("chmod", ("d1", "n1")), drain(w), call(w, "watchlist"), obs(w)]
    steps += epilogue(w)
    return steps


def fam_moves(rnd, i, depth=30):
    """Rename correlation: moves within / between watched directories, in from and out to
    unwatched places (leaving unmatched cookies behind), plain creates and hard links in between."""
    w = "w1"
    steps = [fs("mkdir", ("d1",)), fs("mkdir", ("d2",)), fs("mkdir", ("u",))]
    f = FS()
    for d in (("d1",), ("d2",), ("u",)):
        f.add(d, "dir")
    for n in NAMES[:3]:
        for d in (("d1",), ("u",)):
            steps.append(fs("create", d + (n,)))
            f.add(d + (n,), "file")
    steps.append(new(w, rnd.choice([0, 0, 16])))
    steps.append(call(w, "add", ("d1",), rnd.choice(SPELLINGS), rnd))
    if rnd.random() < 0.7:
        steps.append(call(w, "add", ("d2",), rnd.choice(SPELLINGS), rnd))
    pace = rnd.choice(["immediate", "bursty", "bursty"])
    allnames = NAMES + ["m1", "m2", "m3"]
    for _ in range(rnd.randint(4, depth)):
        files = f.files()
        r = rnd.random()
        if r < 0.75 and files:
            a = rnd.choice(files)
            b = rnd.choice([("d1",), ("d2",), ("u",)]) + (rnd.choice(allnames),)
            if a != b and not f.isdir(b):
                f.mv(a, b)
                steps.append(fs("rename", a, to=b))
        elif r < 0.85:
            p = rnd.choice([("d1",), ("d2",), ("u",)]) + (rnd.choice(allnames),)
            if not f.exists(p):
                f.add(p, "file")
                steps.append(fs("create", p))
        elif r < 0.95 and files:
            a = rnd.choice(files)
            b = rnd.choice([("d1",), ("d2",)]) + (rnd.choice(allnames),)
            if not f.exists(b):
                f.add(b, "file", f.ino[a])
                steps.append(fs("link", a, to=b))
        if pace == "immediate":
            steps.append(drain(w))
    steps += epilogue(w, close=False)
    return steps


def fam_parmoves(rnd, i):
    """Moves performed by several threads at once, each inside its own watched directory, so that the two
    halves of different moves interleave in the kernel queue (rename correlation must still pair them)."""
    w = "w1"
    nt = rnd.randint(2, 6)
    steps = []
    dirs = [("p%d" % k,) for k in range(nt)]
    for d in dirs:
        steps.append(fs("mkdir", d))
        steps.append(fs("create", d + ("f0",)))
    steps.append(new(w, rnd.choice([0, 0, 64])))
    for d in dirs:
        steps.append(call(w, "add", d, "rel"))
    rounds = rnd.randint(3, 12)
    if rnd.random() < 0.25:
        # many moves at once: more than ten other moves out may lie between the halves of one move (ring of ten)
        threads = []
        for d in dirs:
            threads.append([fs("rename", d + ("f%d" % r,), to=d + ("f%d" % (r + 1),)) for r in range(rounds)])
        steps.append({"s": "par", "threads": threads})
    else:
        # one move per thread at a time: at most nt-1 <= 5 foreign halves in between, well within the ring
        for r in range(rounds):
            steps.append({"s": "par", "threads": [[fs("rename", d + ("f%d" % r,), to=d + ("f%d" % (r + 1),))] for d in dirs]})
            if rnd.random() < 0.3:
                steps.append(fdrain(rnd, w))
    steps += [fdrain(rnd, w), call(w, "watchlist"), obs(w)]
    return steps


def fam_multix(rnd, i):
    """Watchers on different directories of one history: a move between a directory only A watches and one
    only B watches, handled by A first while B is held back; identical operations separated by observations
    (the kernel queue is seen empty in between, so nothing can be merged) with a buffered watcher."""
    steps = [fs("mkdir", ("src",)), fs("mkdir", ("dst",)), fs("create", ("src", "f1")), fs("create", ("src", "f2")), fs("create", ("dst", "g"))]
    a, b = "w1", "w2"
    steps += [new(a, rnd.choice([0, 4])), call(a, "add", ("src",), "rel"), new(b, rnd.choice([0, 0, 16])), call(b, "add", ("dst",), "rel")]
    if rnd.random() < 0.5:
        steps.append(call(a, "add", ("dst",), "rel"))
    # hold B back with an unreceived event
    steps += [fs("chmod", ("dst", "g")), drain(a)]
    for k in (1, 2):
        steps += [fs("rename", ("src", "f%d" % k), to=("dst", "f%d" % k)), drain(a)]
    steps += [drain(b), obs(a), obs(b)]
    # identical operations, each fully read by the library before the next one (no kernel merge possible)
    c = "w3"
    cap = rnd.choice([4, 16, 64])
    steps += [new(c, cap), call(c, "add", ("dst",), "rel")]
    for _ in range(rnd.randint(2, 4)):
        steps += [fs("chmod", ("dst", "g")), obs(c)]
    for _ in range(rnd.randint(1, 3)):
        steps += [fs("write", ("dst", "g")), obs(c)]
    steps += [drain(c), drain(a), drain(b), obs(c)]
    for w in (a, b, c):
        steps += [call(w, "close"), drain(w), obs(w)]
    return steps


def fam_closereuse(rnd, i, k=None):
    """A Watcher with a large recursive tree is closed while new Watchers are made: the kernel hands the number of the
    closed notification descriptor to one of them, and each instance numbers its watches from 1 - anything the closed
    Watcher still does with its old descriptor *number* (or the old watch numbers) hits the newcomer. The newcomers
    watch a directory of their own; each is judged against the ground truth of the shadow instance
    (C14: another Watcher's life cycle does not change this one's stream; C13/C06: Close is the end of all activity)."""
    k = k or rnd.choice([600, 1500, 3000])
    steps = [{"s": "recurse", "recurse": True}, fs("mkdir", ("d1",)), fs("create", ("d1", "n1")), fs("mkdir", ("r",)),
             {"s": "rep", "k": k, "pat": [fs("mkdir", ("r", "x%"))]}]
    steps += [new("w1", rnd.choice([0, 4])), call("w1", "add", ("r",), "rel", recurse=True)]
    if rnd.random() < 0.5:
        steps += [fs("mkdir", ("r", "late")), drain("w1")]
    steps.append(call("w1", "close", t="t2", **{"async": True, "nowait": True}))     # the next steps race with this Close
    late = ["w2", "w3", "w4"][:rnd.choice([2, 3])]         # (few: the sandbox-wide limit of inotify instances is shared by everything that runs)
    for w in late:
        steps += [dict(new(w, rnd.choice([0, 8, 64])), nowait=True), call(w, "add", ("d1",), "rel")]
        if rnd.random() < 0.5:
            steps.append(call(w, "add", ("d1", "n1"), "rel"))
    steps.append({"s": "join", "t": "t2"})
    steps += [fs("create", ("d1", "y1")), fs("chmod", ("d1", "n1")), fs("write", ("d1", "n1")), fs("unlink", ("d1", "y1"))]
    for w in late:
        steps += [drain(w), call(w, "watchlist"), obs(w)]
    steps += [drain("w1"), obs("w1")]
    for w in late:
        steps += [call(w, "close"), drain(w), obs(w)]
    steps.append({"s": "recurse", "recurse": False})
    return steps


def fam_recurse(rnd, i):
    """Recursive watches: trees whose sibling names share string prefixes (dir1/dir10, sub/sub2), directories
    created one level at a time (each followed by receipt of its Create), inner renames, re-creation under a
    renamed-away name, file operations at every depth, two recursive roots (r/a, r/ab) and Remove of one."""
    w = "w1"
    steps = [{"s": "recurse", "recurse": True}, fs("mkdir", ("r",))]
    two_roots = rnd.random() < 0.35
    cwdroot = False
    if two_roots:
        steps += [fs("mkdir", ("r", "a")), fs("mkdir", ("r", "ab")), fs("mkdir", ("r", "a", "s")), fs("mkdir", ("r", "ab", "s")),
                  new(w, rnd.choice([0, 0, 8])), call(w, "add", ("r", "a"), rnd.choice(["rel", "abs", "dot"]), recurse=True),
                  call(w, "add", ("r", "ab"), rnd.choice(["rel", "abs", "dot"]), recurse=True), drain(w)]
        dirs = [("r", "a"), ("r", "ab"), ("r", "a", "s"), ("r", "ab", "s")]
    else:
        pre = [("r", "dir1"), ("r", "dir10"), ("r", "sub"), ("r", "sub2"), ("r", "dir1", "in"), ("r", "sub", "deep")]
        k = rnd.randint(2, len(pre))
        dirs = []
        for d in pre[:k]:
            if d[:-1] == ("r",) or d[:-1] in dirs:
                steps.append(fs("mkdir", d))
                dirs.append(d)
        cwdroot = rnd.random() < 0.2       # the root is the working directory, added as "." (its directories are listed as "s", not "./s")
        if cwdroot:
            steps += [{"s": "chdir", "p": ["r"]}, new(w, rnd.choice([0, 0, 8])),
                      {"s": "call", "w": w, "t": "t1", "op": "add", "arg": {"abs": False, "c": ["."]}, "recurse": True}, drain(w)]
        else:
            steps += [new(w, rnd.choice([0, 0, 8])), call(w, "add", ("r",), rnd.choice(["rel", "abs", "dot", "trail"]), rnd, recurse=True), drain(w)]
        dirs = [("r",)] + dirs
    filewatch = None
    if not two_roots and not cwdroot and len(dirs) >= 2 and rnd.random() < 0.25:
        # a file inside the tree that is ALSO added on its own: when a directory above it is renamed its events, too, carry the
        # new location
        fd = rnd.choice(dirs[1:])
        filewatch = fd + ("conf",)
        steps += [fs("create", filewatch), drain(w), call(w, "add", filewatch, "rel"), fs("chmod", filewatch), drain(w)]
    if not two_roots and rnd.random() < 0.3:
        # a directory whose own name ends in \\... , added on its own (not recursively): its siblings are not watched by that
        steps += [fs("mkdir", ("q",)), fs("mkdir", ("q", "BS1")), fs("mkdir", ("q", "other")), call(w, "add", ("q", "BS1"), "rel"),
                  fs("create", ("q", "sib")), fs("create", ("q", "other", "f")), fs("create", ("q", "BS1", "in")), drain(w)]
    cnt = [0]

    def fresh(prefix):
        cnt[0] += 1
        return "%s%d" % (prefix, cnt[0])
    removed = None
    long = rnd.random() < 0.3          # long histories: more than ten renames in one Watcher's life
    for _ in range(rnd.randint(16, 30) if long else rnd.randint(4, 14)):
        r = rnd.random()
        if long and r < 0.40:
            r = 0.7                    # mostly renames of inner directories
        if r < 0.40:
            d = rnd.choice(dirs)
            f = d + (rnd.choice(["f1", "f2", "f10"]),)
            steps += [fs("create", f), fs("write", f), fs("chmod", f)]
            if rnd.random() < 0.5:
                steps.append(fs("unlink", f))
            else:
                steps.append(fs("rename", f, to=d + (fresh("g"),)))
        elif r < 0.60:
            d = rnd.choice(dirs)
            if len(d) < 4:
                nd = d + (rnd.choice(["dir1", "dir10", "sub", "sub2", "n", "n1"]),)
                if nd not in dirs:
                    steps += [fs("mkdir", nd), drain(w)]       # one level at a time, Create received before anything happens inside
                    dirs.append(nd)
        elif r < 0.85 and not two_roots:
            cands = [d for d in dirs if len(d) >= 2]
            if cands:
                a = rnd.choice(cands)
                b = a[:-1] + (rnd.choice(["x", "dir", "su", "sub3", "dir11"]) + str(cnt[0]),)
                cnt[0] += 1
                if rnd.random() < 0.3:
                    # moved to ANOTHER directory of the same tree (a sibling, a deeper one, an ancestor), not just renamed in place
                    others = [d for d in dirs if d[:len(a)] != a and d != a[:-1] and len(d) < 4 and d[0] == a[0]]
                    if others:
                        np = rnd.choice(others)
                        b = np + (rnd.choice(["mv", "sub", "dir1"]) + str(cnt[0]),)
                        steps += [fs("rename", a, to=b), drain(w), fs("create", b + ("in",)), drain(w)]
                        dirs = [b + d[len(a):] if d[:len(a)] == a else d for d in dirs]
                        if filewatch and filewatch[:len(a)] == a:
                            filewatch = b + filewatch[len(a):]
                            steps += [fs("chmod", filewatch), fs("write", filewatch), drain(w)]
                        continue
                if rnd.random() < 0.12 and len(a) >= 2:
                    # renamed OVER an empty directory of the tree (rename(2) allows that): the victim's end must not take the
                    # mover's place in the tables
                    victim = a[:-1] + ("vic%d" % cnt[0],)
                    cnt[0] += 1
                    steps += [fs("mkdir", victim), drain(w), fs("rename2", a, to=victim), drain(w), fs("create", victim + ("ov",)), drain(w), obs(w)]
                    dirs = [victim + d[len(a):] if d[:len(a)] == a else d for d in dirs]
                    if filewatch and filewatch[:len(a)] == a:
                        filewatch = victim + filewatch[len(a):]
                        steps += [fs("chmod", filewatch), fs("write", filewatch), drain(w)]
                    continue
                if rnd.random() < 0.12:
                    # moved away and back, and a new directory made under the intermediate name, before any of it is handled:
                    # the pending "moved to b" must not be taken for the new b (found by the bounded model MC_Recurse)
                    steps += [fs("rename", a, to=b), fs("rename", b, to=a), fs("mkdir", b), drain(w),
                              fs("create", a + ("fa",)), fs("create", b + ("fb",)), drain(w)]
                    dirs.append(b)
                    continue
                if rnd.random() < 0.15:
                    # renamed twice before the first move is handled (the consumer is not reading)
                    c = a[:-1] + ("twice%d" % cnt[0],)
                    steps += [fs("rename", a, to=b), fs("rename", b, to=c), drain(w)]
                    b = c
                else:
                    steps += [fs("rename", a, to=b), drain(w)]
                dirs = [b + d[len(a):] if d[:len(a)] == a else d for d in dirs]
                if filewatch and filewatch[:len(a)] == a:
                    filewatch = b + filewatch[len(a):]
                    steps += [fs("chmod", filewatch), fs("write", filewatch), drain(w)]
                if rnd.random() < 0.4:             # a new directory under the old name
                    steps += [fs("mkdir", a), drain(w)]
                    dirs.append(a)
        elif two_roots and removed is None and r < 0.8:
            removed = rnd.choice([("r", "a"), ("r", "ab")])
            steps += [drain(w), call(w, "remove", removed, "rel", recurse=True), drain(w)]
            dirs = [d for d in dirs if d[:2] != removed]
            # activity in the removed tree must not be reported any more, in the other it must
            steps += [fs("create", removed + ("gone",)), fs("create", removed + ("s", "gone2"))]
        if rnd.random() < 0.6:
            steps.append(drain(w))
    if not two_roots and removed is None and rnd.random() < 0.25:
        # Remove of the whole tree while one of its directories has just been deleted and the reader has not got to that yet
        # (it is parked sending the Create): every kernel watch of the tree must be released, whatever Remove returns
        removed = ("r",)
        steps += [drain(w), fs("mkdir", ("r", "gone9")), obs(w), fs("rmdir", ("r", "gone9")), obs(w),
                  {"s": "call", "w": w, "t": "t1", "op": "remove", "arg": {"abs": False, "c": ["."]}, "recurse": True} if cwdroot else call(w, "remove", ("r",), "rel", recurse=True),
                  drain(w), obs(w), fs("create", ("r", "after")), drain(w)]
    if filewatch and removed is None:
        steps += [drain(w), fs("unlink", filewatch), drain(w), obs(w)]          # one Remove for it: its directory reports it
    if not two_roots and cwdroot and removed is None:
        steps += [drain(w), call(w, "watchlist"), {"s": "call", "w": w, "t": "t1", "op": "remove", "arg": {"abs": False, "c": ["."]}, "recurse": True},
                  drain(w), call(w, "watchlist"), obs(w)]
        steps += [fs("create", d + ("late",)) for d in dirs[:4]] + [drain(w)]
    steps += [drain(w), obs(w), call(w, "close"), drain(w), obs(w), {"s": "recurse", "recurse": False}]
    return steps


# ---------------------------------------------------------------- kqueue backend (on the simulated kqueue)

def kq_epilogue(close=True):
    st = [{"s": "drain"}, call("w1", "watchlist"), {"s": "obs"}]
    if close:
        st += [call("w1", "close"), {"s": "drain"}, {"s": "obs"}, call("w1", "add", ("d1",), "rel"), call("w1", "remove", ("d1",), "rel"), call("w1", "watchlist")]
    return st


def fam_kqdir(rnd, i, symlinks=False):
    """kqueue: sequential histories of create/write/chmod/truncate/remove/rename/mkdir/rmdir inside one or two
    watched directories (re-use of names, overwrite by rename, moves in and out), each followed by a drain;
    Add/Remove/WatchList in between; descriptors and tables observed at quiescence."""
    w = "w1"
    f = FS()
    steps = []
    for d in (("d1",), ("d2",), ("u",)):
        steps.append(fs("mkdir", d))
        f.add(d, "dir")
    for d in (("d1",), ("d2",), ("u",)):
        for n in rnd.sample(NAMES, rnd.randint(0, 3)):
            steps.append(fs("create", d + (n,)))
            f.add(d + (n,), "file")
    if rnd.random() < 0.5:
        steps.append(fs("mkdir", ("d1", "s1")))
        f.add(("d1", "s1"), "dir")
    steps.append(new(w, rnd.choice([0, 0, 4, None])))
    sp = rnd.choice(["rel", "abs", "dot", "rel", "trail", "dbl"])
    watched = [("d1",)]
    via = ("d1",)
    if symlinks and rnd.random() < 0.6:
        steps.append(fs("symlink", ("ld",), tgt={"abs": rnd.random() < 0.5, "c": ["d1"]}))
        via = ("ld",)
    steps.append(call(w, "add", via, sp, rnd))
    if rnd.random() < 0.5:
        steps.append(call(w, "add", ("d2",), rnd.choice(["rel", "abs"])))
        watched.append(("d2",))
    if rnd.random() < 0.2 and f.files():
        steps.append(call(w, "add", rnd.choice(f.files()), "rel"))
    steps.append({"s": "obs"})
    dirs = [("d1",), ("d2",), ("u",)]
    for _ in range(rnd.randint(3, 14)):
        r = rnd.random()
        files = [p for p in f.files() if len(p) == 2]
        st = None
        if r < 0.18:
            p = rnd.choice(dirs) + (rnd.choice(NAMES),)
            if not f.exists(p):
                f.add(p, "file")
                st = fs("create", p)
        elif r < 0.40 and files:
            st = fs(rnd.choice(["write", "chmod", "trunc"]), rnd.choice(files))
        elif r < 0.52 and files:
            p = rnd.choice(files)
            f.rm(p)
            st = fs("unlink", p)
        elif r < 0.75 and files:
            a = rnd.choice(files)
            b = rnd.choice(dirs) + (rnd.choice(NAMES),)
            if a != b and not f.isdir(b):
                f.mv(a, b)
                st = fs("rename", a, to=b)
        elif r < 0.82:
            p = rnd.choice([("d1",), ("d2",)]) + (rnd.choice(["s1", "s2"]),)
            if not f.exists(p):
                f.add(p, "dir")
                st = fs("mkdir", p)
        elif r < 0.88:
            cand = [d for d in f.dirs() if len(d) == 2 and not f.children(d)]
            if cand:
                p = rnd.choice(cand)
                f.rm(p)
                st = fs("rmdir", p)
        elif r < 0.92:
            steps.append(call(w, "watchlist"))
        elif r < 0.95:
            steps += [call(w, "remove", rnd.choice(watched), rnd.choice(["rel", "abs"])), {"s": "obs"}]
        elif r < 0.97 and files:
            # Remove of an entry of a watched directory that the user never added
            steps += [call(w, "remove", rnd.choice(files), sp if sp in ("rel", "abs") else "rel"), {"s": "obs"}]
        else:
            steps.append(call(w, "add", rnd.choice(watched), rnd.choice(["rel", "abs", "dot"])))
        if st:
            steps += [st, {"s": "drain"}]
        if rnd.random() < 0.25:
            steps.append({"s": "obs"})
    mode = rnd.choice(["remove_all", "close", "close", "rmrf"])
    steps += [{"s": "drain"}, call(w, "watchlist"), {"s": "obs"}]
    if mode == "remove_all":
        steps += [call(w, "remove", via, sp, rnd), call(w, "remove", ("d2",), "rel"), {"s": "drain"}, {"s": "obs"}, call(w, "watchlist")]
    elif mode == "rmrf":
        steps += [fs("rmrf", ("d1",)), {"s": "drain"}, {"s": "obs"}, call(w, "watchlist")]
    steps += [call(w, "close"), {"s": "drain"}, {"s": "obs"}, call(w, "add", ("d2",), "rel"), call(w, "remove", ("d2",), "rel"), call(w, "watchlist"), call(w, "close")]
    return steps


def fam_kqfault(rnd, i):
    """kqueue: a directory entry that cannot be opened (dangling symbolic link) makes Add fail midway through the
    directory listing; whatever was opened until then must be released by Remove / Close."""
    w = "w1"
    steps = [fs("mkdir", ("d1",))]
    for n in rnd.sample(["a", "b", "c", "m"], rnd.randint(1, 3)):
        steps.append(fs("create", ("d1", n)))
    steps.append(fs("symlink", ("d1", rnd.choice(["z9", "k5", "a0"])), tgt={"abs": False, "c": ["nowhere"]}))
    sp = rnd.choice(["rel", "abs"])
    steps += [new(w, 0), call(w, "add", ("d1",), sp), {"s": "obs"}, call(w, "watchlist")]
    if rnd.random() < 0.5:
        steps += [call(w, "add", ("d1",), sp), {"s": "obs"}]
    steps += [call(w, "remove", ("d1",), sp), {"s": "obs"}, call(w, "watchlist"), call(w, "close"), {"s": "drain"}, {"s": "obs"}]
    return steps


def fam_kqkfault(rnd, i):
    """kqueue: kevent(EV_ADD) fails once (ENOMEM) - for an Add of a file or of a directory, or for the reader covering
    a new entry of a watched directory.  The failing Add leaves nothing behind (descriptors, table rows, WatchList);
    retrying and removing afterwards behave as if it had never been made."""
    w = "w1"
    steps = [fs("mkdir", ("d1",)), fs("create", ("d1", "n1")), fs("create", ("f",)), fs("create", ("g",)), new(w, rnd.choice([0, 4]))]
    sp = rnd.choice(["rel", "abs"])
    mode = rnd.choice(["file", "file", "dir", "reader", "reader"])
    if mode == "file":
        if rnd.random() < 0.5:
            steps += [call(w, "add", ("d1",), sp), {"s": "obs"}]
        steps += [{"s": "kfault", "n": 1}, call(w, "add", ("f",), sp), {"s": "obs"}, call(w, "watchlist"),
                  call(w, "add", ("g",), sp), call(w, "add", ("f",), sp), {"s": "obs"}, call(w, "watchlist"),
                  fs("write", ("f",)), {"s": "drain"}, fs("chmod", ("g",)), {"s": "drain"}]
        rm = [("f",), ("g",)]
        rnd.shuffle(rm)
        for q in rm:
            steps += [call(w, "remove", q, sp), {"s": "obs"}, call(w, "watchlist")]
        steps += [fs("write", ("f",)), fs("write", ("g",)), {"s": "drain"}]
    elif mode == "dir":
        steps += [{"s": "kfault", "n": 1}, call(w, "add", ("d1",), sp), {"s": "obs"}, call(w, "watchlist"), call(w, "remove", ("d1",), sp),
                  call(w, "add", ("d1",), sp), {"s": "obs"}, fs("create", ("d1", "n2")), {"s": "drain"}, fs("write", ("d1", "n1")), {"s": "drain"},
                  call(w, "remove", ("d1",), sp), {"s": "obs"}, call(w, "watchlist")]
    else:
        steps += [call(w, "add", ("d1",), sp), {"s": "obs"}, {"s": "kfault", "n": 1}, fs("create", ("d1", "new")), {"s": "drain"}, {"s": "obs"}]
        if rnd.random() < 0.5:      # (no further change of the directory itself: the entry that could not be covered would be reported again)
            steps += [fs("write", ("d1", "n1")), {"s": "drain"}, fs("chmod", ("d1", "n1")), {"s": "drain"}, {"s": "obs"}]
        steps += [call(w, "remove", ("d1",), sp), {"s": "obs"}, call(w, "watchlist")]
        if rnd.random() < 0.5:
            steps += [call(w, "add", ("f",), sp), call(w, "remove", ("f",), sp), {"s": "obs"}]
    steps += [call(w, "close"), {"s": "drain"}, {"s": "obs"}]
    return steps


def fam_kqnested(rnd, i):
    """kqueue: a directory and one of its subdirectories both watched by the user (parent first), the
    subdirectory not empty when added; operations in both."""
    w = "w1"
    steps = [fs("mkdir", ("d1",)), fs("mkdir", ("d1", "s1")), fs("create", ("d1", "n1"))]
    for n in rnd.sample(NAMES, rnd.randint(1, 3)):
        steps.append(fs("create", ("d1", "s1", n)))
    steps += [new(w, rnd.choice([0, 4])), call(w, "add", ("d1",), "rel"), {"s": "obs"}, call(w, "add", ("d1", "s1"), "rel"), {"s": "drain"}, {"s": "obs"}]
    pend = rnd.random() < 0.4
    used = set()
    touched = False
    for _ in range(rnd.randint(2, 8)):
        d = rnd.choice([("d1",), ("d1", "s1")])
        q = d + ("q%d" % rnd.randint(1, 9),)
        if rnd.random() < 0.6 and q not in used:
            used.add(q)
            st = fs("create", q)
        elif pend and touched:
            continue                     # without a drain in between, at most one operation per existing entry (kevents merge)
        else:
            touched = True
            st = fs(rnd.choice(["write", "chmod"]), ("d1", "n1"))
        steps.append(st)
        if not pend:
            steps.append({"s": "drain"})
    steps += [{"s": "drain"}, {"s": "obs"}, call(w, "watchlist"), call(w, "remove", ("d1", "s1"), "rel"), {"s": "obs"},
              call(w, "remove", ("d1",), "rel"), {"s": "obs"}, call(w, "close"), {"s": "drain"}, {"s": "obs"}]
    return steps


def fam_kqsym(rnd, i):
    return fam_kqdir(rnd, i, symlinks=True)


def fam_kqburst(rnd, i):
    """kqueue: more than ten kevents pending between two reader wake-ups (operations on distinct existing
    entries while the reader is held back by an unreceived event), then drain."""
    w = "w1"
    n = rnd.choice([3, 12, 25])
    steps = [fs("mkdir", ("d1",))]
    for k in range(1, n + 1):
        steps.append(fs("create", ("d1", "x%d" % k)))
    steps += [new(w, rnd.choice([0, 0, 2])), call(w, "add", ("d1",), rnd.choice(["rel", "abs"])), {"s": "obs"},
              fs("chmod", ("d1", "x1"))]          # unreceived: the reader parks in its send
    pat = rnd.choice([[fs("chmod", ("d1", "x%"))], [fs("write", ("d1", "x%"))], [fs("unlink", ("d1", "x%"))]])
    steps.append({"s": "rep", "k": n, "pat": pat})
    steps += [{"s": "drain"}, {"s": "obs"}, call(w, "watchlist"), call(w, "remove", ("d1",), "rel"), {"s": "obs"}, call(w, "close"), {"s": "drain"}, {"s": "obs"}]
    return steps


def fam_kqseq(rnd, i):
    """kqueue: several operations on the SAME entries of a watched directory between two reader wake-ups (the
    reader is parked on an unreceived Create): chmod then overwrite by rename, rename away / remove / re-create,
    write / remove / re-create ... so that one kevent carries several NOTE_* flags.  Afterwards each name involved
    is written to (a re-created entry must be covered) and an unrelated entry is created (nothing is reported twice)."""
    w = "w1"
    sp = rnd.choice(["rel", "abs"])
    steps = [fs("mkdir", ("d1",)), fs("create", ("d1", "a")), fs("create", ("d1", "b")), fs("create", ("d1", "c")),
             new(w, 0), call(w, "add", ("d1",), sp), {"s": "obs"}]
    hold = rnd.random() < 0.8
    pre = [fs("create", ("d1", "other"))] if hold else []      # unreceived: the reader parks sending this Create
    t = rnd.choice(["chmod_overwrite", "chmod_overwrite", "away_remove_recreate", "write_remove_recreate", "chmod_remove", "remove_recreate_write",
                    "rename_new_chmod", "write_overwrite", "away_recreate", "chain", "swap", "create_remove", "create_write", "overwrite_write",
                    "away_recreate_write", "two_overwrites"])
    A, B, M = ("d1", "a"), ("d1", "b"), ("d1", "m")
    S = ("d1", "sub")
    if rnd.random() < 0.2:
        # the same for an entry that is a DIRECTORY: removed and made again, replaced by a file, renamed away and its name reused
        steps.insert(4, fs("mkdir", S))
        t = rnd.choice(["dir_remove_recreate", "dir_to_file", "dir_away_recreate"])
        if t == "dir_remove_recreate":
            ops, after = [fs("rmdir", S), fs("mkdir", S)], []
        elif t == "dir_to_file":
            ops, after = [fs("rmdir", S), fs("create", S), fs("create", ("d1", "z"))], [S, ("d1", "z")]
        else:
            ops, after = [fs("rename", S, to=M), fs("mkdir", S)], []
        steps.append({"s": "rep", "k": 1, "pat": pre + ops, "atomic": True})
        steps += [{"s": "drain"}, {"s": "obs"}]
        for q in after:
            steps += [fs("write", q), {"s": "drain"}]
        steps += [fs("chmod", S), {"s": "drain"}]
        steps += [fs("create", ("d1", "last")), {"s": "drain"}, fs("chmod", ("d1", "last")), {"s": "drain"}, {"s": "obs"}, call(w, "watchlist"),
                  call(w, "remove", ("d1",), sp), {"s": "obs"}, call(w, "close"), {"s": "drain"}, {"s": "obs"}]
        return steps
    if t == "chmod_overwrite":
        ops, after = [fs("chmod", B), fs("rename", A, to=B)], [B]
    elif t == "write_overwrite":
        ops, after = [fs("write", B), fs("rename", A, to=B)], [B]
    elif t == "away_remove_recreate":
        ops, after = [fs("rename", A, to=M), fs("unlink", M), fs("create", A)], [A]
    elif t == "write_remove_recreate":
        ops, after = [fs("write", A), fs("unlink", A), fs("create", A)], [A]
    elif t == "chmod_remove":
        ops, after = [fs("chmod", A), fs("unlink", A)], [B]
    elif t == "remove_recreate_write":
        ops, after = [fs("unlink", A), fs("create", A), fs("write", A)], [A]
    elif t == "away_recreate":
        ops, after = [fs("rename", A, to=M), fs("create", A)], [A, M]
    elif t == "away_recreate_write":
        ops, after = [fs("rename", A, to=M), fs("create", A), fs("write", A), fs("write", M)], [A, M]
    elif t == "chain":
        ops, after = [fs("rename", A, to=M), fs("rename", M, to=("d1", "n"))], [("d1", "n")]
    elif t == "swap":
        ops, after = [fs("rename", A, to=M), fs("rename", B, to=A), fs("rename", M, to=B)], [A, B]
    elif t == "create_remove":
        ops, after = [fs("create", M), fs("write", M), fs("unlink", M), fs("chmod", A)], [A]
    elif t == "create_write":
        ops, after = [fs("create", M), fs("write", M), fs("chmod", M)], [M]
    elif t == "overwrite_write":
        ops, after = [fs("rename", A, to=B), fs("write", B), fs("chmod", B)], [B]
    elif t == "two_overwrites":
        ops, after = [fs("rename", A, to=B), fs("rename", ("d1", "c"), to=B)], [B]
    else:
        ops, after = [fs("rename", A, to=M), fs("chmod", M)], [M]
    steps.append({"s": "rep", "k": 1, "pat": pre + ops, "atomic": True})
    steps += [{"s": "drain"}, {"s": "obs"}]
    for q in after:
        steps += [fs("write", q), {"s": "drain"}]
    steps += [fs("create", ("d1", "last")), {"s": "drain"}, fs("chmod", ("d1", "last")), {"s": "drain"}, {"s": "obs"}, call(w, "watchlist"),
              call(w, "remove", ("d1",), sp), {"s": "obs"}, call(w, "close"), {"s": "drain"}, {"s": "obs"}]
    return steps


def fam_kqredir(rnd, i):
    """kqueue: a watched directory goes away while a directory of the same name is there when the reader gets to it - replaced
    by rename(2), or removed and made again (with entries) before the reader runs: the user's watch ends (Remove, gone
    from WatchList) and nothing of the new directory is watched or kept open."""
    w = "w1"
    sp = rnd.choice(["rel", "abs"])
    steps = [fs("mkdir", ("d1",)), fs("mkdir", ("d2",)), fs("mkdir", ("o",)), fs("create", ("o", "n1")), fs("create", ("o", "n2")),
             new(w, 0), call(w, "add", ("d1",), sp), call(w, "add", ("d2",), sp), {"s": "obs"}]
    how = rnd.choice(["rename_over", "rename_over", "recreate"])
    if how == "rename_over":
        steps += [fs("rename2", ("o",), to=("d1",)), {"s": "drain"}]
    else:
        steps.append({"s": "rep", "k": 1, "atomic": True,
                      "pat": [fs("create", ("d2", "other")), fs("rmdir", ("d1",)), fs("mkdir", ("d1",)), fs("create", ("d1", "n1")), fs("create", ("d1", "n2"))]})
        steps.append({"s": "drain"})
    steps += [{"s": "obs"}, call(w, "watchlist"), fs("write", ("d1", "n1")), fs("create", ("d1", "n3")), {"s": "drain"}, {"s": "obs"},
              call(w, "remove", ("d1",), sp), fs("create", ("d2", "last")), {"s": "drain"}, {"s": "obs"}, call(w, "watchlist"),
              call(w, "close"), {"s": "drain"}, {"s": "obs"}]
    return steps


def fam_kqblind(rnd, i):
    """kqueue, an unprivileged owner (simulated: a file without the owner-read bit cannot be opened): an entry that is
    unreadable when its directory is added cannot be watched; once it is readable again, the next change of the directory
    covers it - from then on its writes, attribute changes and removal are reported like anybody else's."""
    w = "w1"
    sp = rnd.choice(["rel", "abs"])
    f, g = ("d1", "f"), ("d1", "g")
    steps = [fs("mkdir", ("d1",)), fs("create", f), fs("create", g), fs("unreadable", f), {"s": "unpriv", "n": 1},
             new(w, 0), call(w, "add", ("d1",), sp), {"s": "obs"}, fs("write", g), {"s": "drain"}]
    if rnd.random() < 0.5:
        steps += [fs("write", f), {"s": "drain"}]                 # not watched: nothing
    steps += [fs("readable", f), {"s": "drain"}]
    trig = rnd.choice(["create", "unlink", "rename"])
    if trig == "create":
        steps += [fs("create", ("d1", "h")), {"s": "drain"}]
    elif trig == "unlink":
        steps += [fs("unlink", g), {"s": "drain"}]
    else:
        steps += [fs("rename", g, to=("d1", "g2")), {"s": "drain"}]
    steps += [{"s": "obs"}, fs("write", f), {"s": "drain"}, fs("chmod", f), {"s": "drain"}, fs("unlink", f), {"s": "drain"},
              fs("create", f), {"s": "drain"}, fs("write", f), {"s": "drain"}, {"s": "obs"}, call(w, "watchlist"),
              call(w, "remove", ("d1",), sp), {"s": "obs"}, call(w, "close"), {"s": "drain"}, {"s": "obs"}]
    return steps


def fam_kqdot(rnd, i):
    """kqueue: the watched directory is the working directory, added as "." (or "./", "sub/.."): entries are named
    without a "./" prefix, entries existing at Add are not reported, nothing is reported twice, and a second watch on a
    subdirectory works alongside."""
    w = "w1"
    steps = [fs("create", ("old",)), fs("mkdir", ("sub",)), fs("create", ("sub", "in")), new(w, rnd.choice([0, 4]))]
    a = rnd.choice([{"abs": False, "c": ["."]}, {"abs": False, "c": [".", ""]}, {"abs": False, "c": ["sub", ".."]}, {"abs": False, "c": []}])
    steps += [{"s": "call", "w": w, "t": "t1", "op": "add", "arg": a}, {"s": "obs"}]
    both = rnd.random() < 0.5
    if both:
        steps += [call(w, "add", ("sub",), "rel"), {"s": "obs"}]
    ops = [fs("create", ("new",)), fs("write", ("new",)), fs("chmod", ("old",)), fs("mkdir", ("sub2",)), fs("rename", ("new",), to=("new2",)),
           fs("unlink", ("old",)), fs("create", ("sub", "x")), fs("write", ("sub", "in")), fs("create", ("third",))]
    for st in ops[:rnd.randint(3, len(ops))]:
        steps += [st, {"s": "drain"}]
    steps += [{"s": "obs"}, call(w, "watchlist"), {"s": "call", "w": w, "t": "t1", "op": "remove", "arg": a}, {"s": "obs"}]
    if both:
        steps += [fs("create", ("sub", "y")), {"s": "drain"}, call(w, "remove", ("sub",), "rel"), {"s": "obs"}]
    steps += [call(w, "watchlist"), call(w, "close"), {"s": "drain"}, {"s": "obs"}]
    return steps


def fam_kqcycle(rnd, i, n=100):
    """kqueue: add/remove cycles and create/remove cycles keep descriptor and table usage flat."""
    w = "w1"
    steps = [fs("mkdir", ("d1",)), fs("create", ("d1", "n1")), new(w, 0), {"s": "obs"}]
    shape = rnd.choice(["add_remove", "entry_churn", "file_watch"])
    if shape == "add_remove":
        body = [call(w, "add", ("d1",), "rel"), call(w, "remove", ("d1",), "abs")]
    elif shape == "entry_churn":
        steps.append(call(w, "add", ("d1",), "rel"))
        body = [fs("create", ("d1", "n2")), {"s": "drain"}, fs("write", ("d1", "n2")), fs("unlink", ("d1", "n2")), {"s": "drain"}]
    else:
        body = [call(w, "add", ("d1", "n1"), "rel"), fs("chmod", ("d1", "n1")), {"s": "drain"}, call(w, "remove", ("d1", "n1"), "rel")]
    steps.append({"s": "loop", "n": n, "body": body})
    steps += [{"s": "drain"}, {"s": "obs"}, call(w, "watchlist")]
    if shape == "entry_churn":
        steps += [call(w, "remove", ("d1",), "rel"), {"s": "obs"}]
    steps += [call(w, "close"), {"s": "drain"}, {"s": "obs"}]
    return steps


def fam_multi(rnd, i):
    """The same history observed by several watchers with different buffer sizes, while other
    watchers on the same directories are created, used and closed."""
    steps = [fs("mkdir", ("d1",)), fs("mkdir", ("d2",)), fs("create", ("d1", "n1"))]
    f = FS()
    f.add(("d1",), "dir")
    f.add(("d2",), "dir")
    f.add(("d1", "n1"), "file")
    nw = rnd.randint(2, 4)
    caps = [rnd.choice([0, 1, 2, 4, 16, 256, 4096, 65536, None]) for _ in range(nw)]
    ws = ["w%d" % (k + 1) for k in range(nw)]
    sp = rnd.choice(SPELLINGS)
    for w, c in zip(ws, caps):
        steps.append(new(w, c))
        steps.append(call(w, "add", ("d1",), sp, rnd))
        steps.append(call(w, "add", ("d2",), sp, rnd))
        steps.append(obs(w))
    other = ws[-1]
    for _ in range(rnd.randint(3, 10)):
        st = rand_fs_op(rnd, f, allow_dirs=False)
        if st:
            steps.append(st)
        r = rnd.random()
        if r < 0.15:
            steps.append(call(other, "remove", ("d1",), "rel"))
        elif r < 0.3:
            steps.append(call(other, "add", ("d1",), "rel"))
        elif r < 0.4:
            steps.append(call(other, "close"))
        elif r < 0.5:
            steps.append(drain(rnd.choice(ws)))
    if rnd.random() < 0.4:
        # a watched directory is renamed and used under its new name while some watchers lag behind:
        # what a watcher reports after the Rename must not depend on how far its reader had got
        steps += [fs("create", ("d2", "one")), fs("rename", ("d2",), to=("d2m",)), fs("create", ("d2m", "two")),
                  fs("write", ("d2m", "two")), fs("unlink", ("d2m", "one"))]
        if rnd.random() < 0.5:
            steps += [fs("mkdir", ("d2",)), fs("create", ("d2", "three"))]
    for w in ws:
        steps += [drain(w), call(w, "watchlist"), obs(w)]
    for w in ws:
        steps += [call(w, "close"), drain(w), obs(w)]
    return steps


def fam_absorb(rnd, i):
    """A buffered watcher absorbs up to its capacity with no consumer present."""
    w = "w1"
    cap = rnd.choice([1, 2, 4, 8, 64, 512])
    steps = [fs("mkdir", ("d1",)), new(w, cap), call(w, "add", ("d1",), "rel"),
             {"s": "rep", "k": cap, "pat": [fs("create", ("d1", "x%"))]}, obs(w)]
    steps += epilogue(w)
    return steps


def fam_withops(rnd, i):
    """withOps subsets and noFollow: only the requested operations are observed."""
    w = "w1"
    ops = rnd.randrange(1, 512)
    steps = [{"s": "shadowmask", "ops": 0x39}, fs("mkdir", ("d1",)), fs("create", ("d1", "n1")), fs("mkdir", ("d1", "sub")), new(w, 0),
             call(w, "add", ("d1",), "rel", ops=ops), obs(w)]
    f = FS()
    f.add(("d1",), "dir")
    f.add(("d1", "n1"), "file")
    for _ in range(rnd.randint(3, 8)):
        st = rand_fs_op(rnd, f, allow_dirs=False)
        if st and st["op"] not in ("symlink",):
            steps.append(st)
        if rnd.random() < 0.3:
            steps.append(fs("read", ("d1", "n1")))
        if rnd.random() < 0.25:
            steps.append(fs("readdir", ("d1", "sub")))        # the same operations on a directory entry (records carry IN_ISDIR)
        steps.append(drain(w))
    steps += epilogue(w)
    return steps


def fam_repoint(rnd, i):
    """A listed path comes to name a different file (symlink re-targeted, file replaced, directory
    swapped) -- onto an unwatched file or onto one that is already watched under another name -- and is
    added again; then activity on the old and the new file, WatchList, obs, Remove."""
    w = "w1"
    steps = [fs("create", ("a",)), fs("create", ("b",)), fs("mkdir", ("d1",)), fs("mkdir", ("d2",)),
             fs("symlink", ("l",), tgt={"abs": rnd.random() < 0.5, "c": ["b"]}), new(w, rnd.choice([0, 0, 4]))]
    shape = rnd.choice(["alias_symlink", "alias_symlink", "plain_symlink", "replace_file", "replace_keep_link", "replace_keep_fd", "swap_dir", "alias_hardlink"])
    sp = rnd.choice(["rel", "abs", "dot"])
    if shape == "alias_symlink":
        steps += [call(w, "add", ("a",), sp), call(w, "add", ("l",), sp), drain(w),
                  fs("unlink", ("l",)), fs("symlink", ("l",), tgt={"abs": False, "c": ["a"]}), call(w, "add", ("l",), sp)]
        old, newp, P = ("b",), ("a",), ("l",)
    elif shape == "plain_symlink":
        steps += [call(w, "add", ("l",), sp), drain(w), fs("unlink", ("l",)), fs("symlink", ("l",), tgt={"abs": False, "c": ["a"]}),
                  call(w, "add", ("l",), sp)]
        old, newp, P = ("b",), ("a",), ("l",)
    elif shape == "replace_file":
        steps += [call(w, "add", ("a",), sp), fs("rename", ("a",), to=("a0",)), drain(w), fs("create", ("a",)), call(w, "add", ("a",), sp)]
        old, newp, P = ("a0",), ("a",), ("a",)
    elif shape == "replace_keep_link":
        steps += [call(w, "add", ("a",), sp), fs("link", ("a",), to=("h",)), fs("unlink", ("a",)), fs("create", ("a",)), drain(w), call(w, "add", ("a",), sp)]
        old, newp, P = ("h",), ("a",), ("a",)
    elif shape == "replace_keep_fd":
        steps += [call(w, "add", ("a",), sp), fs("open", ("a",), fd="f1"), fs("unlink", ("a",)), fs("create", ("a",)), drain(w), call(w, "add", ("a",), sp)]
        old, newp, P = None, ("a",), ("a",)
    elif shape == "swap_dir":
        steps += [fs("symlink", ("ld",), tgt={"abs": False, "c": ["d1"]}), call(w, "add", ("ld",), sp), drain(w), fs("unlink", ("ld",)),
                  fs("symlink", ("ld",), tgt={"abs": False, "c": ["d2"]}), call(w, "add", ("ld",), sp)]
        old, newp, P = ("d1", "n1"), ("d2", "n1"), ("ld",)
    else:
        steps += [fs("link", ("a",), to=("h",)), call(w, "add", ("a",), sp), call(w, "add", ("l",), sp), drain(w),
                  fs("unlink", ("l",)), fs("symlink", ("l",), tgt={"abs": False, "c": ["h"]}), call(w, "add", ("l",), sp)]
        old, newp, P = ("b",), ("h",), ("l",)
    steps += [drain(w), call(w, "watchlist"), obs(w)]
    if shape == "swap_dir":
        steps += [fs("create", old), fs("create", newp)]
    else:
        if old:
            steps.append(fs("chmod", old))
        steps.append(fs("chmod", newp))
        if shape == "replace_keep_fd":
            steps.append(fs("fdwrite", (), fd="f1"))
    steps += [drain(w), call(w, "watchlist"), obs(w)]
    if shape == "replace_keep_fd":
        steps += [fs("closefd", (), fd="f1"), drain(w), obs(w)]
    if shape == "replace_keep_link":
        steps += [fs("unlink", ("h",)), drain(w), obs(w)]
    order = rnd.choice([0, 1])
    rm = [call(w, "remove", P, sp), drain(w), call(w, "watchlist"), obs(w)]
    if order == 0:
        steps += rm
    steps += [fs("chmod", newp) if shape != "swap_dir" else fs("create", ("d2", "n2")), drain(w)]
    if order == 1:
        steps += rm
    steps += [call(w, "close"), drain(w), obs(w)]
    return steps


def fam_stall(rnd, i):
    """Consumer behaviours: events and/or nothing are received while bursts larger than the buffer are
    pending; every control call must come back regardless."""
    w = "w1"
    cap = rnd.choice([0, 1, 2, 8])
    steps = [fs("mkdir", ("d1",)), fs("create", ("d1", "n1")), new(w, cap), call(w, "add", ("d1",), rnd.choice(SPELLINGS), rnd)]
    steps.append({"s": "rep", "k": cap + rnd.choice([1, 2, 10, 100]), "pat": [fs("create", ("d1", "x%"))]})
    beh = rnd.choice(["none", "some", "mid"])
    if beh == "some":
        for _ in range(rnd.randint(1, 3)):
            steps.append(recv(w))
    elif beh == "mid":
        for _ in range(cap + 1):
            steps.append(recv(w))
        steps.append(recv(w, "err"))
    steps.append(obs(w))
    for c in rnd.sample(["watchlist", "add", "remove", "add2"], rnd.randint(2, 4)):
        if c == "watchlist":
            steps.append(call(w, "watchlist"))
        elif c == "add":
            steps.append(call(w, "add", ("d1", "n1"), "rel"))
        elif c == "add2":
            steps.append(call(w, "add", ("d1",), "abs"))
        else:
            steps.append(call(w, "remove", ("d1", "n1"), "rel"))
    mode = rnd.choice(["close", "close2", "drain_close"])
    if mode == "drain_close":
        steps.append(drain(w))
    steps.append(call(w, "close"))
    if mode == "close2":
        steps.append(call(w, "close"))
    steps += [drain(w), obs(w)]
    return steps


def fam_spell(rnd, i):
    """Every spelling of the Add argument (absolute, relative, ./, //, x/../x, trailing slash, through
    absolute and relative symlinks to a file and to a directory) crossed with the name-shape tables;
    then operations on the watched path and on directory entries."""
    w = "w1"
    steps = [fs("mkdir", ("d1",)), fs("mkdir", ("d1", "s1")), fs("create", ("d1", "n1")), fs("create", ("f1",)),
             fs("symlink", ("lf",), tgt={"abs": rnd.random() < 0.5, "c": ["f1"]}),
             fs("symlink", ("ld",), tgt={"abs": rnd.random() < 0.5, "c": ["d1"]}),
             fs("symlink", ("d1", "ls"), tgt={"abs": False, "c": ["s1"]}),
             new(w, rnd.choice([0, 0, 3]))]
    targets = [("d1",), ("d1", "s1"), ("f1",), ("lf",), ("ld",), ("d1", "ls"), ("d1", "n1"), ()]
    chosen = rnd.sample(targets, rnd.randint(1, 3))
    for t in chosen:
        sp = rnd.choice(SPELLINGS)
        steps.append(call(w, "add", t, sp, rnd))
    # second Add of the same files under other spellings: the first one wins
    if rnd.random() < 0.5:
        t = rnd.choice(chosen)
        steps.append(call(w, "add", t, rnd.choice(SPELLINGS), rnd))
    ops = [fs("create", ("d1", "n2")), fs("write", ("d1", "n1")), fs("chmod", ("d1", "n1")), fs("chmod", ("f1",)), fs("write", ("f1",)),
           fs("create", ("d1", "s1", "n1")), fs("rename", ("d1", "n2"), to=("d1", "n3")), fs("create", ("n4",)), fs("unlink", ("n4",)),
           fs("mkdir", ("d1", "s2")), fs("rmdir", ("d1", "s2")), fs("chmod", ("d1",)), fs("chmod", ("d1", "s1")),
           fs("create", ("d1", "s1", "n2")), fs("unlink", ("d1", "s1", "n2")), fs("rename", ("d1", "n3"), to=("n5",)), fs("trunc", ("f1",))]
    k = rnd.randint(4, len(ops))
    pend = rnd.random() < 0.5
    for st in ops[:k]:
        steps.append(st)
        if not pend:
            steps.append(drain(w))
    steps += epilogue(w, close=False)
    return steps


def fam_endwatch(rnd, i):
    """Histories that delete, rename, overwrite-by-rename or recreate watched files and directories
    (alone, with their watched parent, through symlinks, with descriptors held open, with a second hard
    link), each followed by obs, Remove, further operations on the old and the new file, and re-Add."""
    w = "w1"
    steps = [fs("mkdir", ("d1",)), fs("create", ("d1", "n1")), fs("create", ("d1", "n2")), fs("mkdir", ("d1", "s1")),
             fs("symlink", ("lf",), tgt={"abs": False, "c": ["d1", "n1"]}), new(w, rnd.choice([0, 0, 2, 16]))]
    isdir = rnd.random() < 0.3
    tgt = ("d1", "s1") if isdir else ("d1", "n1")
    via = ("lf",) if (not isdir and rnd.random() < 0.25) else tgt
    sp = rnd.choice(SPELLINGS)
    steps.append(call(w, "add", via, sp, rnd))
    parent = rnd.random() < 0.5
    if parent:
        steps.append(call(w, "add", ("d1",), rnd.choice(SPELLINGS), rnd))
    held = link = False
    if not isdir and rnd.random() < 0.3:
        steps.append(fs("open", tgt, fd="f1"))
        held = True
    if not isdir and rnd.random() < 0.25:
        steps.append(fs("link", tgt, to=("d1", "h1")))
        link = True
    how = rnd.choice(["delete", "rename", "overwrite", "rename_out", "delete_parent"] if not isdir else ["delete", "rename", "rename_out"])
    pace = rnd.choice(["drain", "drain", "lag"])
    moved = None
    if how == "delete":
        steps.append(fs("rmdir" if isdir else "unlink", tgt))
    elif how == "rename":
        moved = ("d1", "m1")
        steps.append(fs("rename", tgt, to=moved))
    elif how == "rename_out":
        moved = ("m2",)
        steps.append(fs("rename", tgt, to=moved))
    elif how == "overwrite":
        steps.append(fs("rename", ("d1", "n2"), to=tgt))
    elif how == "delete_parent":
        steps += [fs("rmrf", ("d1",))]
    if pace == "drain":
        steps.append(drain(w))
    steps += [call(w, "watchlist"), obs(w)]
    if held:
        steps += [fs("fdwrite", (), fd="f1"), fs("closefd", (), fd="f1")]
        if pace == "drain":
            steps.append(drain(w))
    if link and how != "delete_parent":
        steps += [fs("chmod", ("d1", "h1")), fs("unlink", ("d1", "h1"))]
        if pace == "drain":
            steps.append(drain(w))
    if rnd.random() < 0.5:
        steps.append(call(w, "remove", via, sp, rnd))
    # further operations on the moved file and on a new file under the old name
    if moved:
        steps.append(fs("chmod", moved))
    if how != "delete_parent":
        if how != "overwrite":
            steps.append(fs("mkdir" if isdir else "create", tgt))
        steps.append(fs("chmod", tgt))
        if pace == "drain":
            steps.append(drain(w))
        steps += [call(w, "watchlist"), call(w, "add", via, sp, rnd), fs("chmod", tgt)]
        if isdir:
            steps += [fs("create", tgt + ("n9",))]
        else:
            steps += [fs("write", tgt)]
    steps += [drain(w), call(w, "watchlist"), obs(w), call(w, "remove", via, sp, rnd), drain(w), call(w, "watchlist"), obs(w),
              call(w, "close"), drain(w), obs(w)]
    return steps


FAMS = {
    "rand": fam_rand, "burst": fam_burst, "lag": fam_lag, "close": fam_close, "wsrand": fam_watchset_random,
    "cycle": fam_cycle, "newclose": fam_newclose, "overflow": fam_overflow, "moves": fam_moves, "multi": fam_multi,
    "absorb": fam_absorb, "withops": fam_withops, "repoint": fam_repoint, "stall": fam_stall, "spell": fam_spell,
    "endwatch": fam_endwatch, "paced": fam_paced, "ovfstall": fam_ovfstall, "ovflate": fam_ovflate,
    "parmoves": fam_parmoves, "multix": fam_multix, "closereuse": fam_closereuse, "recurse": fam_recurse, "cwd": fam_cwd, "readfault": fam_readfault, "dselfskip": fam_dselfskip, "heldparent": fam_heldparent, "reops": fam_reops, "ovfend": fam_ovfend, "rootwatch": fam_rootwatch, "badarg": fam_badarg, "slowpair": fam_slowpair, "capsweep": fam_capsweep, "wlpark": fam_wlpark, "recerr": fam_recerr,
    "kqdir": fam_kqdir, "kqsym": fam_kqsym, "kqburst": fam_kqburst, "kqcycle": fam_kqcycle, "kqfault": fam_kqfault, "kqdot": fam_kqdot, "kqredir": fam_kqredir, "kqblind": fam_kqblind, "kqseq": fam_kqseq, "kqkfault": fam_kqkfault, "kqnested": fam_kqnested,
}


def main():
    ap = argparse.ArgumentParser()
    ap.add_argument("--fam", required=True)
    ap.add_argument("--n", type=int, default=10)
    ap.add_argument("--seed", type=int, default=1)
    ap.add_argument("--k", type=int, default=2)
    ap.add_argument("--sample", type=int, default=None)
    ap.add_argument("--tbl", type=int, default=None)
    ap.add_argument("--param", default="")
    a = ap.parse_args()
    rnd = random.Random(a.seed * 1000003 + hash(a.fam) % 1000 if False else a.seed)
    out = sys.stdout
    params = dict(kv.split("=") for kv in a.param.split(",") if kv)

    def emit(idx, steps):
        tbl = a.tbl if a.tbl is not None else rnd.choice([0, 1, 2, 3, 4, 5, 6, 7, 8])
        out.write(json.dumps({"id": "%s-%d-%d" % (a.fam, a.seed, idx), "tbl": tbl, "seed": a.seed * 100000 + idx, "fam": a.fam,
                              "steps": steps}, separators=(",", ":")) + "\n")

    if a.fam == "wsexh":
        k = int(params.get("k", a.k))
        for idx, steps in enumerate(watchset_exhaustive(k, rnd, a.sample if a.sample is not None else a.n)):
            emit(idx, steps)
        return
    fn = FAMS[a.fam]
    for idx in range(a.n):
        kw = {}
        if a.fam in ("cycle", "newclose", "kqcycle") and "n" in params:
            kw["n"] = int(params["n"])
        if a.fam == "overflow" and "extra" in params:
            kw["extra"] = tuple(int(x) for x in params["extra"].split("+"))
        if a.fam == "burst" and "ks" in params:
            kw["ks"] = tuple(int(x) for x in params["ks"].split("+"))
        if a.fam == "rand" and "maxops" in params:
            kw["maxops"] = int(params["maxops"])
        if a.fam == "ovfstall" and "mode" in params:
            kw["mode"] = params["mode"]
        if a.fam == "slowpair" and "ms" in params:
            kw["ms"] = int(params["ms"])
        if a.fam == "moves" and "depth" in params:
            kw["depth"] = int(params["depth"])
        emit(idx, fn(rnd, idx, **kw))


if __name__ == "__main__":
    main()

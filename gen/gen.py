#!/usr/bin/env python3
"""Scenario generator for the inotify conformance engines.

Scenarios are *inputs* only (filesystem operations, API calls, consumer steps);
nothing in here says what the library should do with them -- that is decided by
spec/Ideal.tla when TLC validates the recorded trace.  A small abstract file
system keeps most generated operations valid; an operation that fails on the
real file system is simply logged as failed and produces no kernel records.

usage: gen.py --fam FAMILY --n N --seed S [--k K] > scenarios.ndjson
"""
import argparse
import itertools
import json
import random
import sys

SPELLINGS = ["abs", "rel", "dot", "dbl", "dotdot", "trail", "absdd", "reldot"]


def arg(path, sp, rnd=None):
    """path: tuple of name tokens below the root. Returns the Add/Remove argument."""
    c = list(path)
    if sp == "abs":
        return {"abs": True, "c": c}
    if sp == "rel":
        return {"abs": False, "c": c}
    if sp == "dot":
        return {"abs": False, "c": ["."] + c}
    if sp == "dbl":
        if not c:
            return {"abs": True, "c": [""]}
        i = (rnd.randrange(len(c)) if rnd else 0)
        return {"abs": bool(rnd and rnd.random() < 0.5), "c": c[:i + 1] + [""] + c[i + 1:]}
    if sp == "dotdot":
        if len(c) < 2:
            return {"abs": False, "c": c + ["."]}
        return {"abs": False, "c": [c[0], "..", c[0]] + c[1:]}
    if sp == "absdd":
        if len(c) < 2:
            return {"abs": True, "c": c + ["."]}
        return {"abs": True, "c": [c[0], "..", c[0]] + c[1:]}
    if sp == "trail":
        return {"abs": bool(rnd and rnd.random() < 0.5), "c": c + [""]}
    if sp == "reldot":
        return {"abs": False, "c": c[:1] + ["."] + c[1:]}
    raise ValueError(sp)


class FS:
    """Abstract file system used only to keep generated operations mostly valid."""

    def __init__(self):
        self.kind = {(): "dir"}      # path -> dir|file|symlink
        self.ino = {(): 0}
        self.n = 1
        self.fds = {}                # fd name -> path it was opened by

    def exists(self, p):
        return p in self.kind

    def isdir(self, p):
        return self.kind.get(p) == "dir"

    def children(self, p):
        return [q for q in self.kind if len(q) == len(p) + 1 and q[:len(p)] == p]

    def add(self, p, kind, ino=None):
        self.kind[p] = kind
        if ino is None:
            ino = self.n
            self.n += 1
        self.ino[p] = ino

    def rm(self, p):
        for q in [q for q in self.kind if q[:len(p)] == p]:
            del self.kind[q]
            del self.ino[q]

    def mv(self, a, b):
        self.rm(b)
        for q in [q for q in list(self.kind) if q[:len(a)] == a]:
            nq = b + q[len(a):]
            self.kind[nq] = self.kind.pop(q)
            self.ino[nq] = self.ino.pop(q)

    def files(self):
        return [p for p, k in self.kind.items() if k == "file"]

    def dirs(self):
        return [p for p, k in self.kind.items() if k == "dir"]


def fs(op, p, **kw):
    d = {"s": "fs", "op": op, "p": list(p)}
    for k, v in kw.items():
        d[k] = list(v) if isinstance(v, tuple) else v
    return d


def call(w, op, path=None, sp="rel", rnd=None, t="t1", **kw):
    d = {"s": "call", "w": w, "t": t, "op": op}
    if path is not None:
        d["arg"] = arg(path, sp, rnd)
    d.update(kw)
    return d


def recv(w, ch="ev"):
    return {"s": "recv", "w": w, "ch": ch}


def drain(w):
    return {"s": "drain", "w": w}


def obs(w):
    return {"s": "obs", "w": w}


def new(w, cap):
    d = {"s": "new", "w": w}
    if cap is not None:
        d["cap"] = cap
    return d


def epilogue(w, close=True):
    st = [drain(w), call(w, "watchlist"), obs(w)]
    if close:
        st += [call(w, "close"), drain(w), obs(w), call(w, "add", (), "rel"), call(w, "remove", (), "rel"), call(w, "watchlist")]
    return st


NAMES = ["n1", "n2", "n3", "n4"]
DIRS = [("d1",), ("d2",)]


def setup_tree(rnd, f, steps, ndirs=2, nfiles=3, sub=True):
    for d in DIRS[:ndirs]:
        steps.append(fs("mkdir", d))
        f.add(d, "dir")
    for d in DIRS[:ndirs]:
        for n in rnd.sample(NAMES, rnd.randint(0, nfiles)):
            steps.append(fs("create", d + (n,)))
            f.add(d + (n,), "file")
    if sub and rnd.random() < 0.5:
        p = ("d1", "s1")
        steps.append(fs("mkdir", p))
        f.add(p, "dir")


def rand_fs_op(rnd, f, allow_dirs=True):
    """One random, mostly valid, file system step (or None)."""
    dirs = [d for d in f.dirs() if len(d) >= 1]
    files = f.files()
    for _ in range(20):
        op = rnd.choice(["create", "create", "write", "write", "trunc", "chmod", "chmod", "unlink", "unlink", "rename",
                         "rename", "rename", "mkdir", "rmdir", "link", "symlink", "open", "closefd", "fdwrite", "chmoddir", "renamedir"])
        if op == "create":
            d = rnd.choice(dirs + [()])
            p = d + (rnd.choice(NAMES),)
            if not f.exists(p):
                f.add(p, "file")
                return fs("create", p)
        elif op in ("write", "trunc", "chmod") and files:
            p = rnd.choice(files)
            return fs(op, p)
        elif op == "unlink" and files:
            p = rnd.choice(files + [q for q, k in f.kind.items() if k == "symlink"])
            f.rm(p)
            return fs("unlink", p)
        elif op == "rename" and files:
            a = rnd.choice(files)
            d = rnd.choice(dirs + [()])
            b = d + (rnd.choice(NAMES),)
            if a != b and not f.isdir(b):
                f.mv(a, b)
                return fs("rename", a, to=b)
        elif op == "mkdir" and allow_dirs:
            d = rnd.choice(dirs + [()])
            p = d + (rnd.choice(["s1", "s2"]),)
            if not f.exists(p) and len(p) <= 3:
                f.add(p, "dir")
                return fs("mkdir", p)
        elif op == "rmdir" and allow_dirs:
            cand = [d for d in dirs if not f.children(d)]
            if cand:
                p = rnd.choice(cand)
                f.rm(p)
                return fs("rmdir", p)
        elif op == "link" and files:
            a = rnd.choice(files)
            d = rnd.choice(dirs + [()])
            b = d + (rnd.choice(NAMES),)
            if not f.exists(b):
                f.add(b, "file", f.ino[a])
                return fs("link", a, to=b)
        elif op == "symlink":
            d = rnd.choice(dirs + [()])
            p = d + (rnd.choice(["l1", "l2"]),)
            if not f.exists(p) and (files or dirs):
                tgt = rnd.choice(files + dirs)
                f.add(p, "symlink")
                return fs("symlink", p, tgt=arg(tgt, rnd.choice(["abs", "abs", "rel"]) if len(p) == 1 else "abs"))
        elif op == "open" and files and len(f.fds) < 2:
            p = rnd.choice(files)
            name = "f%d" % (len(f.fds) + 1)
            if name not in f.fds:
                f.fds[name] = p
                return fs("open", p, fd=name)
        elif op == "closefd" and f.fds:
            name = rnd.choice(sorted(f.fds))
            del f.fds[name]
            return fs("closefd", (), fd=name)
        elif op == "fdwrite" and f.fds:
            return fs("fdwrite", (), fd=rnd.choice(sorted(f.fds)))
        elif op == "chmoddir" and dirs:
            return fs("chmod", rnd.choice(dirs))
        elif op == "renamedir" and allow_dirs and dirs:
            a = rnd.choice(dirs)
            b = a[:-1] + (rnd.choice(["s1", "s2", "d3"]),)
            if not f.exists(b):
                f.mv(a, b)
                return fs("rename", a, to=b)
    return None


def fam_rand(rnd, i, maxops=12, caps=(0, 0, 1, 2, 64, None), allow_dirs=True, removes=True):
    """Random history over one watcher with varied pacing; ends with drain, WatchList, obs, Close."""
    f = FS()
    steps = []
    setup_tree(rnd, f, steps)
    w = "w1"
    steps.append(new(w, rnd.choice(caps)))
    watched = []
    cands = f.dirs() + f.files()
    rnd.shuffle(cands)
    for p in cands[:rnd.randint(1, 4)]:
        steps.append(call(w, "add", p, rnd.choice(SPELLINGS), rnd))
        watched.append(p)
    pace = rnd.choice(["immediate", "delayed", "bursty", "one"])
    for _ in range(rnd.randint(3, maxops)):
        r = rnd.random()
        if r < 0.72:
            st = rand_fs_op(rnd, f, allow_dirs)
            if st:
                steps.append(st)
        elif r < 0.80:
            cands = f.dirs() + f.files()
            if cands:
                p = rnd.choice(cands)
                steps.append(call(w, "add", p, rnd.choice(SPELLINGS), rnd))
                watched.append(p)
        elif r < 0.86 and removes and watched:
            p = rnd.choice(watched)
            steps.append(call(w, "remove", p, rnd.choice(SPELLINGS), rnd))
        elif r < 0.92:
            steps.append(call(w, "watchlist"))
        else:
            steps.append(obs(w))
        if pace == "immediate":
            steps.append(drain(w))
        elif pace == "delayed" and rnd.random() < 0.4:
            steps.append(recv(w))
        elif pace == "one":
            steps.append(recv(w))
    steps += epilogue(w, close=rnd.random() < 0.7)
    return steps


def fam_burst(rnd, i, ks=(2, 3, 17, 240, 700), big=False):
    """Reader parked on an unreceived event, then a burst of k pattern instances, then drain:
    the decode loop runs at every offset of a multi-event read and across read boundaries."""
    steps = [fs("mkdir", ("d1",)), fs("create", ("d1", "n1"))]
    w = "w1"
    cap = rnd.choice([0, 0, 1, 4])
    steps.append(new(w, cap))
    steps.append(call(w, "add", ("d1",), rnd.choice(SPELLINGS), rnd))
    steps.append(fs("chmod", ("d1", "n1")))       # left unreceived: the reader parks in its send
    for _ in range(cap):
        steps.append(fs("write", ("d1", "n1")))
    k = rnd.choice(ks)
    pats = [
        [fs("create", ("d1", "x%"))],
        [fs("create", ("d1", "x%")), fs("write", ("d1", "x%"))],
        [fs("create", ("d1", "x%")), fs("chmod", ("d1", "x%")), fs("unlink", ("d1", "x%"))],
        [fs("create", ("d1", "x%")), fs("rename", ("d1", "x%"), to=("d1", "y%"))],
        [fs("mkdir", ("d1", "x%")), fs("rmdir", ("d1", "x%"))],
    ]
    steps.append({"s": "rep", "k": k, "pat": rnd.choice(pats)})
    if rnd.random() < 0.5:
        steps.append(recv(w))
        steps.append(obs(w))
    steps += epilogue(w, close=rnd.random() < 0.3)
    return steps


def fam_lag(rnd, i):
    """Two-step histories whose second step invalidates a kernel watch before the record of the
    first has been processed (reader held back by an unreceived event), followed by each control
    call with nobody receiving, then a drain."""
    steps = [fs("mkdir", ("d1",)), fs("create", ("d1", "n1")), fs("create", ("d1", "n2")), fs("mkdir", ("d1", "s1"))]
    w = "w1"
    cap = rnd.choice([0, 0, 0, 1, 2])
    steps.append(new(w, cap))
    tgt = rnd.choice([("d1", "n1"), ("d1", "s1")])
    isdir = tgt == ("d1", "s1")
    steps.append(call(w, "add", tgt, rnd.choice(SPELLINGS), rnd))
    if rnd.random() < 0.5:
        steps.append(call(w, "add", ("d1",), rnd.choice(SPELLINGS), rnd))
    # park the reader: cap+1 events pending, nobody receives
    hold = rnd.random() < 0.8
    if hold:
        for _ in range(cap + 1):
            steps.append(fs("chmod", tgt))
            steps.append(fs("chmod", ("d1", "n2")))
    hist = rnd.choice(["mv_rm", "mv_rm", "rm_remove", "mv_remove", "mv_mvback", "rm_recreate_add", "mv_write", "rm_only", "mv_only", "mv_over"])
    moved = ("d1", "m1")
    if hist == "mv_rm":
        steps += [fs("rename", tgt, to=moved), fs("rmdir" if isdir else "unlink", moved)]
    elif hist == "rm_remove":
        steps += [fs("rmdir" if isdir else "unlink", tgt), call(w, "remove", tgt, "rel")]
    elif hist == "mv_remove":
        steps += [fs("rename", tgt, to=moved), call(w, "remove", tgt, "rel")]
    elif hist == "mv_mvback":
        steps += [fs("rename", tgt, to=moved), fs("rename", moved, to=tgt)]
    elif hist == "rm_recreate_add":
        steps += [fs("rmdir" if isdir else "unlink", tgt), fs("mkdir" if isdir else "create", tgt), call(w, "add", tgt, "rel")]
    elif hist == "mv_write":
        steps += [fs("rename", tgt, to=moved), fs("chmod", moved)]
    elif hist == "rm_only":
        steps += [fs("rmdir" if isdir else "unlink", tgt)]
    elif hist == "mv_only":
        steps += [fs("rename", tgt, to=moved)]
    elif hist == "mv_over":
        steps += [fs("rename", ("d1", "n2"), to=tgt)] if not isdir else [fs("rename", tgt, to=moved)]
    # consumer behaviour while the control calls are made
    beh = rnd.choice(["none", "one", "events_only", "all"])
    if beh == "one":
        steps.append(recv(w))
    elif beh == "events_only":
        for _ in range(cap + 4):
            steps.append(recv(w))
    elif beh == "all":
        steps.append(drain(w))
    ctl = rnd.sample(["watchlist", "add", "remove", "close"], rnd.randint(1, 3))
    if "close" in ctl:                      # Close last
        ctl.remove("close")
        ctl.append("close")
    steps.append(obs(w))
    for c in ctl:
        if c == "watchlist":
            steps.append(call(w, "watchlist"))
        elif c == "add":
            steps.append(call(w, "add", ("d1", "n2"), "rel"))
        elif c == "remove":
            steps.append(call(w, "remove", ("d1",), "rel"))
        else:
            steps.append(call(w, "close"))
    steps += [drain(w), call(w, "watchlist"), obs(w)]
    if "close" not in ctl:
        steps += [call(w, "close"), drain(w), obs(w)]
    return steps


def fam_close(rnd, i):
    """Close at every kind of position: idle, mid-burst, reader parked in a send, buffered events
    present, several Close calls (also concurrently), followed by receives until both channels are
    closed and by the three API calls."""
    steps = [fs("mkdir", ("d1",)), fs("create", ("d1", "n1"))]
    w = "w1"
    cap = rnd.choice([0, 0, 1, 2, 8, 64, None])
    steps.append(new(w, cap))
    steps.append(call(w, "add", ("d1",), rnd.choice(SPELLINGS), rnd))
    if rnd.random() < 0.5:
        steps.append(call(w, "add", ("d1", "n1"), rnd.choice(SPELLINGS), rnd))
    pos = rnd.choice(["idle", "pending", "pending", "burst", "buffered", "after_drain"])
    f = FS()
    f.add(("d1",), "dir")
    f.add(("d1", "n1"), "file")
    if pos in ("pending", "buffered", "after_drain"):
        for _ in range(rnd.randint(1, 6)):
            st = rand_fs_op(rnd, f, allow_dirs=False)
            if st:
                steps.append(st)
        if pos == "after_drain":
            steps.append(drain(w))
        elif rnd.random() < 0.5:
            steps.append(recv(w))
    elif pos == "burst":
        steps.append({"s": "rep", "k": rnd.choice([5, 50, 300]), "pat": [fs("create", ("d1", "x%")), fs("unlink", ("d1", "x%"))]})
        if rnd.random() < 0.5:
            steps.append(recv(w))
    mode = rnd.choice(["sync", "sync", "double", "async2", "async_then_calls"])
    if mode == "sync":
        steps.append(call(w, "close"))
    elif mode == "double":
        steps += [call(w, "close"), call(w, "close"), call(w, "close")]
    elif mode == "async2":
        steps += [call(w, "close", t="t2", **{"async": True}), call(w, "close", t="t3", **{"async": True}),
                  {"s": "join", "t": "t2"}, {"s": "join", "t": "t3"}]
    else:
        steps += [call(w, "close", t="t2", **{"async": True}), call(w, "watchlist"), {"s": "join", "t": "t2"}]
    # more activity after Close: nothing of it may be reported
    for _ in range(rnd.randint(0, 3)):
        st = rand_fs_op(rnd, f, allow_dirs=False)
        if st:
            steps.append(st)
    steps += [drain(w), obs(w), call(w, "add", ("d1",), "rel"), call(w, "remove", ("d1",), "rel"), call(w, "watchlist"),
              call(w, "close"), obs(w)]
    return steps


# ---------------------------------------------------------------- watch-set universe (C04, C12, C09)

WS_PATHS = {
    "f1": ("f1",), "f2": ("f2",), "d1": ("d1",), "lf": ("lf",), "ld": ("ld",), "h1": ("h1",),
    "miss": ("zz",), "nondir": ("f1", "x"), "loop": ("lp",), "long": ("LONG",), "sub": ("d1", "n1"),
}


def ws_setup():
    return [fs("create", ("f1",)), fs("create", ("f2",)), fs("mkdir", ("d1",)), fs("create", ("d1", "n1")),
            fs("symlink", ("lf",), tgt={"abs": False, "c": ["f1"]}), fs("symlink", ("ld",), tgt={"abs": True, "c": ["d1"]}),
            fs("link", ("f1",), to=("h1",)), fs("symlink", ("lp",), tgt={"abs": False, "c": ["lp"]})]


def ws_actions():
    acts = []
    for name in WS_PATHS:
        acts.append(("add", name))
        acts.append(("remove", name))
    acts.append(("watchlist", None))
    # re-pointing / ending file system operations
    acts += [("fsx", "retarget_lf_f2"), ("fsx", "retarget_lf_f1"), ("fsx", "rm_recreate_f1"), ("fsx", "mv_f2_f1"), ("fsx", "rm_f2"),
             ("fsx", "mv_d1_away_back"), ("fsx", "rm_h1"), ("fsx", "chmod_f1"), ("fsx", "touch_d1")]
    return acts


def ws_step(act, rnd, w="w1"):
    kind, x = act
    if kind in ("add", "remove"):
        p = WS_PATHS[x]
        sp = rnd.choice(SPELLINGS) if x not in ("long", "loop", "miss", "nondir") else rnd.choice(["abs", "rel", "dot"])
        return [call(w, kind, p, sp, rnd)]
    if kind == "watchlist":
        return [call(w, "watchlist"), obs(w)]
    if x == "retarget_lf_f2":
        return [fs("unlink", ("lf",)), fs("symlink", ("lf",), tgt={"abs": False, "c": ["f2"]})]
    if x == "retarget_lf_f1":
        return [fs("unlink", ("lf",)), fs("symlink", ("lf",), tgt={"abs": True, "c": ["f1"]})]
    if x == "rm_recreate_f1":
        return [fs("unlink", ("f1",)), fs("create", ("f1",))]
    if x == "mv_f2_f1":
        return [fs("rename", ("f2",), to=("f1",)), fs("create", ("f2",))]
    if x == "rm_f2":
        return [fs("unlink", ("f2",))]
    if x == "mv_d1_away_back":
        return [fs("rename", ("d1",), to=("d9",)), fs("mkdir", ("d1",))]
    if x == "rm_h1":
        return [fs("unlink", ("h1",))]
    if x == "chmod_f1":
        return [fs("chmod", ("f1",))]
    if x == "touch_d1":
        return [fs("create", ("d1", "n2")), fs("unlink", ("d1", "n2"))]
    raise ValueError(act)


def fam_watchset_seq(seqacts, rnd, drain_each=True):
    w = "w1"
    steps = ws_setup() + [new(w, rnd.choice([0, 0, 2]))]
    for a in seqacts:
        steps += ws_step(a, rnd)
        if drain_each:
            steps.append(drain(w))
    steps += [drain(w), call(w, "watchlist"), obs(w), fs("chmod", ("f1",)), fs("chmod", ("f2",)), fs("create", ("d1", "n3")),
              drain(w), call(w, "close"), drain(w), obs(w)]
    return steps


def fam_watchset_random(rnd, i, kmax=8):
    acts = ws_actions()
    k = rnd.randint(2, kmax)
    return fam_watchset_seq([rnd.choice(acts) for _ in range(k)], rnd, drain_each=rnd.random() < 0.8)


def watchset_exhaustive(k, rnd, sample=None):
    """All action sequences of length k over a reduced alphabet (one spelling drawn per call)."""
    core = [("add", "f1"), ("add", "lf"), ("add", "h1"), ("add", "f2"), ("add", "d1"), ("add", "miss"),
            ("remove", "f1"), ("remove", "lf"), ("remove", "f2"), ("remove", "miss"),
            ("fsx", "retarget_lf_f2"), ("fsx", "rm_recreate_f1"), ("fsx", "mv_f2_f1"), ("watchlist", None)]
    seqs = list(itertools.product(core, repeat=k))
    if sample is not None and sample < len(seqs):
        seqs = rnd.sample(seqs, sample)
    for s in seqs:
        yield fam_watchset_seq(list(s), rnd)


def fam_cycle(rnd, i, n=200):
    """add / remove / delete / recreate / re-add cycles; sizes are observed at start and end."""
    w = "w1"
    shape = rnd.choice(["add_remove", "delete_readd", "rename_readd", "hardlink_keep", "openfd_keep", "dir_cycle"])
    steps = [fs("mkdir", ("d1",)), fs("create", ("d1", "n1")), new(w, rnd.choice([0, 4])), call(w, "add", ("d1",), "rel"), drain(w), obs(w)]
    p = ("d1", "n1")
    if shape == "add_remove":
        body = [call(w, "add", p, "rel"), call(w, "remove", p, "abs"), drain(w)]
    elif shape == "delete_readd":
        body = [call(w, "add", p, "rel"), fs("unlink", p), drain(w), fs("create", p), drain(w)]
    elif shape == "rename_readd":
        body = [call(w, "add", p, "rel"), fs("rename", p, to=("d1", "n2")), drain(w), fs("rename", ("d1", "n2"), to=p), drain(w)]
    elif shape == "hardlink_keep":
        body = [call(w, "add", p, "rel"), fs("link", p, to=("d1", "h")), fs("unlink", p), fs("create", p), call(w, "add", p, "rel"),
                fs("unlink", ("d1", "h")), drain(w), call(w, "remove", p, "rel"), drain(w)]
    elif shape == "openfd_keep":
        body = [call(w, "add", p, "rel"), fs("open", p, fd="f1"), fs("unlink", p), fs("create", p), call(w, "add", p, "rel"),
                fs("closefd", (), fd="f1"), drain(w), call(w, "remove", p, "rel"), drain(w)]
    else:
        q = ("d1", "s1")
        body = [fs("mkdir", q), call(w, "add", q, "rel"), fs("create", q + ("n1",)), fs("unlink", q + ("n1",)), fs("rmdir", q), drain(w)]
    steps.append({"s": "loop", "n": n, "body": body})
    steps += [drain(w), call(w, "watchlist"), obs(w), call(w, "close"), drain(w), obs(w)]
    return steps


def fam_newclose(rnd, i, n=200):
    """create/close loops, and NewWatcher failing at its first syscall (descriptor limit)."""
    w = "w1"
    steps = [fs("mkdir", ("d1",)), fs("create", ("d1", "n1"))]
    body = [new(w, rnd.choice([0, 1, None])), call(w, "add", ("d1",), "rel"), call(w, "add", ("d1", "n1"), "rel"),
            fs("chmod", ("d1", "n1")), call(w, "close"), drain(w)]
    if rnd.random() < 0.5:
        body.insert(4, recv(w))
    steps.append({"s": "loop", "n": n, "body": body})
    steps.append(obs(w))
    fail = {"s": "new", "w": "w2", "cap": 0, "nofile": 1}
    steps += [fail, fail, {"s": "new", "w": "w3"}, obs("w3"), call("w3", "close"), drain("w3"), obs("w3")]
    return steps


def fam_overflow(rnd, i, extra=(6,)):
    """Reader parked, more distinct records than fs.inotify.max_queued_events, then drain."""
    w = "w1"
    maxq = 16384
    k = maxq + rnd.choice(extra)
    steps = [fs("mkdir", ("d1",)), fs("create", ("d1", "n1")), new(w, 0), call(w, "add", ("d1",), "rel"),
             fs("chmod", ("d1", "n1")), {"s": "rep", "k": k, "pat": [fs("create", ("d1", "x%"))]},
             call(w, "watchlist"), drain(w), obs(w),
             fs("create", ("d1", "n2")), fs("write", ("d1", "n2")), call(w, "add", ("d1", "n2"), "rel"), fs("chmod", ("d1", "n2")),
             call(w, "remove", ("d1", "n2"), "rel"), drain(w), call(w, "watchlist"), obs(w), call(w, "close"), drain(w), obs(w)]
    return steps


def fam_moves(rnd, i, depth=30):
    """Rename correlation: moves within / between watched directories, in from and out to
    unwatched places (leaving unmatched cookies behind), plain creates and hard links in between."""
    w = "w1"
    steps = [fs("mkdir", ("d1",)), fs("mkdir", ("d2",)), fs("mkdir", ("u",))]
    f = FS()
    for d in (("d1",), ("d2",), ("u",)):
        f.add(d, "dir")
    for n in NAMES[:3]:
        for d in (("d1",), ("u",)):
            steps.append(fs("create", d + (n,)))
            f.add(d + (n,), "file")
    steps.append(new(w, rnd.choice([0, 0, 16])))
    steps.append(call(w, "add", ("d1",), rnd.choice(SPELLINGS), rnd))
    if rnd.random() < 0.7:
        steps.append(call(w, "add", ("d2",), rnd.choice(SPELLINGS), rnd))
    pace = rnd.choice(["immediate", "bursty", "bursty"])
    allnames = NAMES + ["m1", "m2", "m3"]
    for _ in range(rnd.randint(4, depth)):
        files = f.files()
        r = rnd.random()
        if r < 0.75 and files:
            a = rnd.choice(files)
            b = rnd.choice([("d1",), ("d2",), ("u",)]) + (rnd.choice(allnames),)
            if a != b and not f.isdir(b):
                f.mv(a, b)
                steps.append(fs("rename", a, to=b))
        elif r < 0.85:
            p = rnd.choice([("d1",), ("d2",), ("u",)]) + (rnd.choice(allnames),)
            if not f.exists(p):
                f.add(p, "file")
                steps.append(fs("create", p))
        elif r < 0.95 and files:
            a = rnd.choice(files)
            b = rnd.choice([("d1",), ("d2",)]) + (rnd.choice(allnames),)
            if not f.exists(b):
                f.add(b, "file", f.ino[a])
                steps.append(fs("link", a, to=b))
        if pace == "immediate":
            steps.append(drain(w))
    steps += epilogue(w, close=False)
    return steps


def fam_multi(rnd, i):
    """The same history observed by several watchers with different buffer sizes, while other
    watchers on the same directories are created, used and closed."""
    steps = [fs("mkdir", ("d1",)), fs("mkdir", ("d2",)), fs("create", ("d1", "n1"))]
    f = FS()
    f.add(("d1",), "dir")
    f.add(("d2",), "dir")
    f.add(("d1", "n1"), "file")
    nw = rnd.randint(2, 4)
    caps = [rnd.choice([0, 1, 2, 4, 16, 256, 4096, 65536, None]) for _ in range(nw)]
    ws = ["w%d" % (k + 1) for k in range(nw)]
    sp = rnd.choice(SPELLINGS)
    for w, c in zip(ws, caps):
        steps.append(new(w, c))
        steps.append(call(w, "add", ("d1",), sp, rnd))
        steps.append(call(w, "add", ("d2",), sp, rnd))
        steps.append(obs(w))
    other = ws[-1]
    for _ in range(rnd.randint(3, 10)):
        st = rand_fs_op(rnd, f, allow_dirs=False)
        if st:
            steps.append(st)
        r = rnd.random()
        if r < 0.15:
            steps.append(call(other, "remove", ("d1",), "rel"))
        elif r < 0.3:
            steps.append(call(other, "add", ("d1",), "rel"))
        elif r < 0.4:
            steps.append(call(other, "close"))
        elif r < 0.5:
            steps.append(drain(rnd.choice(ws)))
    for w in ws:
        steps += [drain(w), call(w, "watchlist"), obs(w)]
    for w in ws:
        steps += [call(w, "close"), drain(w), obs(w)]
    return steps


def fam_absorb(rnd, i):
    """A buffered watcher absorbs up to its capacity with no consumer present."""
    w = "w1"
    cap = rnd.choice([1, 2, 4, 8, 64, 512])
    steps = [fs("mkdir", ("d1",)), new(w, cap), call(w, "add", ("d1",), "rel"),
             {"s": "rep", "k": cap, "pat": [fs("create", ("d1", "x%"))]}, obs(w)]
    steps += epilogue(w)
    return steps


def fam_withops(rnd, i):
    """withOps subsets and noFollow: only the requested operations are observed."""
    w = "w1"
    ops = rnd.randrange(1, 512)
    steps = [{"s": "shadowmask", "ops": 0x39}, fs("mkdir", ("d1",)), fs("create", ("d1", "n1")), new(w, 0),
             call(w, "add", ("d1",), "rel", ops=ops), obs(w)]
    f = FS()
    f.add(("d1",), "dir")
    f.add(("d1", "n1"), "file")
    for _ in range(rnd.randint(3, 8)):
        st = rand_fs_op(rnd, f, allow_dirs=False)
        if st and st["op"] not in ("symlink",):
            steps.append(st)
        if rnd.random() < 0.3:
            steps.append(fs("read", ("d1", "n1")))
        steps.append(drain(w))
    steps += epilogue(w)
    return steps


FAMS = {
    "rand": fam_rand, "burst": fam_burst, "lag": fam_lag, "close": fam_close, "wsrand": fam_watchset_random,
    "cycle": fam_cycle, "newclose": fam_newclose, "overflow": fam_overflow, "moves": fam_moves, "multi": fam_multi,
    "absorb": fam_absorb, "withops": fam_withops,
}


def main():
    ap = argparse.ArgumentParser()
    ap.add_argument("--fam", required=True)
    ap.add_argument("--n", type=int, default=10)
    ap.add_argument("--seed", type=int, default=1)
    ap.add_argument("--k", type=int, default=2)
    ap.add_argument("--sample", type=int, default=None)
    ap.add_argument("--tbl", type=int, default=None)
    ap.add_argument("--param", default="")
    a = ap.parse_args()
    rnd = random.Random(a.seed * 1000003 + hash(a.fam) % 1000 if False else a.seed)
    out = sys.stdout
    params = dict(kv.split("=") for kv in a.param.split(",") if kv)

    def emit(idx, steps):
        tbl = a.tbl if a.tbl is not None else rnd.choice([0, 1, 2, 3, 4, 5, 6, 7, 8])
        out.write(json.dumps({"id": "%s-%d-%d" % (a.fam, a.seed, idx), "tbl": tbl, "seed": a.seed * 100000 + idx, "fam": a.fam,
                              "steps": steps}, separators=(",", ":")) + "\n")

    if a.fam == "wsexh":
        for idx, steps in enumerate(watchset_exhaustive(a.k, rnd, a.sample)):
            emit(idx, steps)
        return
    fn = FAMS[a.fam]
    for idx in range(a.n):
        kw = {}
        if a.fam in ("cycle", "newclose") and "n" in params:
            kw["n"] = int(params["n"])
        if a.fam == "overflow" and "extra" in params:
            kw["extra"] = tuple(int(x) for x in params["extra"].split("+"))
        if a.fam == "burst" and "ks" in params:
            kw["ks"] = tuple(int(x) for x in params["ks"].split("+"))
        if a.fam == "rand" and "maxops" in params:
            kw["maxops"] = int(params["maxops"])
        emit(idx, fn(rnd, idx, **kw))


if __name__ == "__main__":
    main()

HOOK_COMMITS = ["9c96253", "e0c8558", "ef21529", "03c9aac"]

ENGINES = [
    {"name": "kq-trace", "path": "spec/KqueueTrace.tla + harness/cmd/kqrun + harness/simkq/unix + harness/cmd/extract", "serves_properties": ["C17", "C18"],
     "kind_free_text": "the kqueue backend source compiled on Linux against a simulated kqueue; scenarios replayed, traces validated by TLC against the user-level kqueue specification"},
    {"name": "lin-trace", "path": "spec/LinTrace.tla + harness/cmd/inostress", "serves_properties": ["C07", "C05", "C06"],
     "kind_free_text": "concurrent stress programs under -race; recorded call/return histories are checked for linearizability by TLC"},
    {"name": "ops-trace", "path": "spec/Ops.tla + spec/OpsTrace.tla + spec/MC_Ops.tla + harness/cmd/opsrun + harness/cmd/extract", "serves_properties": ["C15", "C16"],
     "kind_free_text": "real table functions evaluated on complete input spaces, compared with the TLA+ tables by TLC"},
    {"name": "diff-trace", "path": "spec/Diff.tla + spec/DiffTrace.tla + harness/cmd/diffrun", "serves_properties": ["C20"],
     "kind_free_text": "ztest.Diff / DiffMatch evaluated on enumerated inputs, judged by a TLA+ oracle in TLC"},
    {"name": "ino-trace", "path": "spec/InotifyTrace.tla + spec/Ideal.tla + harness/cmd/inorun + gen/gen.py",
     "serves_properties": ["C01", "C02", "C03", "C04", "C05", "C06", "C08", "C09", "C10", "C11", "C12", "C13", "C14", "C19"],
     "kind_free_text": "scenarios (fs operations, API calls, consumer steps; seeded families and bounded-exhaustive enumerations) are replayed on the real "
                       "Watcher next to a shadow inotify instance; the recorded NDJSON trace is validated line by line by TLC against the property-level "
                       "TLA+ specification (Ideal.tla), which computes every expected value; bounded models of the design are model-checked by TLC first"},
]

NOTES = ("All verdicts come from traces of the real code built from /repo's working tree with -tags verif, judged by TLC against the TLA+ "
         "specification in spec/. VERIF_SEED selects the scenario seed, VERIF_SCALE scales scenario counts, REPO overrides /repo.")

_T = "TLA+ spec + TLC: exhaustive model checking of bounded design models, and TLC trace validation of scenarios replayed on the real code"

def _c(text, note, ref, technique=_T, engine="ino-trace", category="model_checking"):
    return dict(text=text, note=note, design_ref=ref, technique=technique, engine=engine, category=category)

_NOTE = ("Trusted: TLC, the Go runtime's goroutine dump and /proc fdinfo as observation channels, the shadow inotify instance as ground truth for "
         "what the kernel emitted. Conformance is testing: the code is bound to the specification on the scenarios actually replayed.")

CHECKS = {
    "C01": _c("Every kernel record for a watched inode (shadow instance) must surface as the event Ideal!ApplyRec computes, in histories with batches of 1..thousands of records, all name shapes and interleaved Add/Remove; losses are only accepted inside the lag/merge/overflow windows the spec names.", _NOTE, "DESIGN.md 6 C01"),
    "C02": _c("Every received event must match a distinct expected entry of the specification (name, op); events for ended/removed watches, housekeeping records and op 0 are flagged.", _NOTE, "DESIGN.md 6 C02"),
    "C03": _c("The received sequence must be an in-order subsequence of the expected sequence covering all mandatory entries, for caps 0/1/2/64/default and immediate/delayed/bursty consumers.", _NOTE, "DESIGN.md 6 C03"),
    "C04": _c("All Add/Remove/WatchList sequences up to length 3 (quick: sample; thorough: length 4) over a universe of files, directories, symlinks, hard link, missing, non-dir, loop and over-long paths in all spellings, plus random longer ones; results and WatchList are compared with IdealAdd/IdealRemove/CheckWL.", _NOTE, "DESIGN.md 6 C04"),
    "C05": _c("Control calls are issued while events/errors are pending and nobody receives; a call that is still parked at quiescence after the confirmation wait is a violation.", _NOTE, "DESIGN.md 6 C05"),
    "C06": _c("Close at idle / pending / burst / buffered positions, multiple and concurrent Close; channels must close, nothing may follow, API must go inert.", _NOTE, "DESIGN.md 6 C06"),
    "C08": _c("Event names are compared token-wise with Clean(first Add argument)[/entry] computed in TLA+ (Paths.tla) under all spellings and name-shape tables, inside bursts.", _NOTE, "DESIGN.md 6 C08"),
    "C09": _c("End-of-watch histories (delete, rename, overwrite, recreate; with parent, symlink, open descriptor, hard link) followed by WatchList/Remove/re-Add are judged by the spec's watch-entry life cycle (live/ending/gone).", _NOTE, "DESIGN.md 6 C09"),
    "C10": _c("Any value on Errors other than a justified ErrEventOverflow is a violation; an overflow scenario with max_queued_events+k records checks reporting and survival.", _NOTE, "DESIGN.md 6 C10"),
    "C11": _c("renamedFrom of every Create is compared with the cookie pairing the spec derives from the kernel records, over random move histories with unmatched halves.", _NOTE, "DESIGN.md 6 C11"),
    "C12": _c("Kernel marks (/proc fdinfo) and table sizes (hook) are compared with the spec's live watch set at every observation; add/remove/delete/recreate cycles are repeated.", _NOTE, "DESIGN.md 6 C12"),
    "C13": _c("After Close and channel closure the inotify descriptor count and library goroutines must be back to the pre-NewWatcher values; NewWatcher failing with EMFILE must leak nothing; create/close loops.", _NOTE, "DESIGN.md 6 C13"),
    "C14": _c("2-4 watchers with different buffer sizes observe one history while another watcher adds/removes/closes; every stream is judged against the same specification; cap(Events) must equal the request. FdReuse.tla (MC_FdReuse: descriptor numbers shared by the Watchers of a process, NoForeignCall / Independent) is model-checked and bound by the closereuse family: Close of a Watcher with a large recursive tree racing NewWatcher/Add of others.", _NOTE, "DESIGN.md 6 C14"),
}

CHECKS.update({
    "C07": _c("Random concurrent programs (2-4 API goroutines, 2 file system goroutines, varied consumer pace, GOMAXPROCS and buffer) run under the race detector; TLC searches a "
              "linearization of every recorded call/return history against the sequential watch-set specification (LinTrace.tla); race reports, panics and hangs are violations. A second batch of programs stays inside the universe of the code-shaped scheduling model (InotifySched.tla: one watched file, chmod / rename-away / delete, "
              "polling consumer); their logs of calls, returns, file system operations and receives are validated against that model with every internal step (reader, mutex, critical sections, kernel queue) "
              "silent - TLC searches for an explaining schedule (SchedTrace.tla). "
              "Reader-lag interleavings that a sequential driver can force are replayed as scenarios and judged by the sequential result specification.",
              "Trusted: TLC, the Go race detector as observation channel for data races. Schedules are those the Go scheduler produced; the model of the design is exhaustive only for small constants.",
              "DESIGN.md 6 C07", technique="TLA+ linearizability trace spec: TLC searches linearization points of recorded concurrent histories; plus trace validation of forced interleavings", engine="lin-trace"),
    "C15": _c("The real inotify translation (hook), the kernel-side mask of real marks for all 2^9 requested op sets, and the kqueue / Windows table functions compiled from the working "
              "tree's source are evaluated on all 2^16 / 2^11 / 2^13 flag combinations; TLC compares every record with Ops.tla and checks that the recorded input sets are complete; "
              "design theorems (union homomorphism, request table exactness) are checked by TLC over all inputs (MC_Ops.tla). Watcher scenarios that add with explicit operation sets (withops, reops) are validated against Ideal.tla as well: subscription and translation end to end.",
              "Trusted: TLC; native constants as in golang.org/x/sys; for kqueue/Windows the functions are the working tree's source text compiled on Linux against constant stubs.",
              "DESIGN.md 6 C15", technique="TLA+ executable table specification evaluated by TLC over the complete input space, compared with records of the real functions", engine="ops-trace"),
    "C16": _c("Op.Has / Event.Has over all 2^16 low Op values (plus sampled high ones) x 40 probe sets, Op.String over the same values, Event.String over name shapes, compared by TLC with Ops.tla; "
              "injectivity on defined bits and blindness to undefined bits are checked as theorems.",
              "Trusted: TLC; strconv.Quote is the uninterpreted quoting function.", "DESIGN.md 6 C16",
              technique="TLA+ executable specification of the renderings evaluated by TLC over the complete low input space, compared with records of the real functions", engine="ops-trace"),
    "C17": _c("The kqueue backend of the working tree runs on a simulated kqueue; histories of Add/Remove/Close over directories whose contents change (create, write, chmod, truncate, remove, "
              "rename in/out/over, mkdir, rmdir, rm -r), through plain and symlinked watch paths, with an injected kevent failure, are replayed; at every quiescent observation the simulator's "
              "open-descriptor set is compared with the watch table, their number with the specification's watch set, WatchList with the user's paths; nothing may be open after Close. "
              "A bounded model of the backend's five tables (KqueueTables.tla) is model-checked first, and every behaviour of it up to 3 (thorough: 4, sampled 5) steps is generated by TLC, "
              "replayed with the reader held back and released at the model's drains, and the observed table sizes are compared with the model's. Concurrent programs (kqstress, -race) check that "
              "no descriptor is left after Close under goroutine schedules the Go scheduler produces.",
              "Trusted: TLC, the simulator (harness/simkq/unix) as the kernel; its NOTE_* rules are FreeBSD's documented ones and bin/kqcalibrate reproduces all 40 applicable recorded freebsd/kqueue expectations of the repository's testdata with it. "
              "No real BSD kernel is observed. Pre-existing defects of the backend are listed in known-findings.txt.",
              "DESIGN.md 6 C17", engine="kq-trace"),
    "C18": _c("Same pipeline: the events delivered for sequential histories inside one or several watched directories (name re-use, overwrite by rename, moves between watched directories, "
              "bursts of more than ten pending kevents, sixteen shapes of several operations on the same entries made faster than the reader wakes up, the working directory watched as '.') "
              "are matched against the specification's expected events (Create once per new entry, Remove-then-Create for a replaced name, union of operations for merged kevents - for "
              "bursts computed from the NOTE_* bits each knote accumulated and the final directory listing - and the user spelling of the watched path); KqueueTables.tla (CreateOnce, Covered) "
              "is model-checked first and its behaviours are replayed as for C17.",
              "Trusted as for C17.", "DESIGN.md 6 C18", engine="kq-trace"),
    "C19": _c("Recursive watches over trees whose sibling names share string prefixes (dir1/dir10, sub/sub2, r/a and r/ab): directories created one level at a time, inner renames, "
              "re-creation under a renamed-away name, file operations at every depth, Remove of one of two roots; every event name is compared with the entry's true current path, which the "
              "specification maintains component-wise (Ideal!MoveDir / IsUnder). A bounded model of the recursive bookkeeping (InotifyRecurse.tla: WalkDir registration, register/updatePath, "
              "removePath, the new-directory and moved-directory branches of handleEvent with the code's string-prefix operations) is model-checked first for all histories up to 5 (thorough: 7) steps.",
              "Trusted as for the other inotify checks. Bursts (mkdir -p) and moves across the tree boundary are not generated, as the property excludes them (a directory renamed twice, or replaced "
              "by a self-referencing link, before the reader gets to it is). What WatchList shows for a recursive watch is not judged.",
              "DESIGN.md 6 C19"),
    "C20": _c("ztest.Diff on all pairs of line sequences over {a,b,c} up to 4 (quick) / 5 (thorough) lines plus seeded long random texts, ztest.DiffMatch on all bounded patterns x texts; every "
              "output is parsed into hunks and judged by the TLA+ oracle Diff.tla (empty iff equal, hunks apply to the first text giving the second, headers agree, context <= 3, matcher semantics).",
              "This is a pure function: the specification is an executable oracle and TLC its evaluator; no state space beyond the patch automaton. Trusted: TLC, the driver's hunk parser.",
              "DESIGN.md 6 C20", technique="TLA+ executable oracle (Diff.tla) evaluated by TLC on an exhaustively enumerated input space", engine="diff-trace"),
})

NOT_APPLICABLE = {
}

"""E3: concurrent use (C07, and the racing parts of C05/C06).  inostress (built with -race) runs random
concurrent programs and records stamped call/return histories; TLC searches a linearization of every program
against the sequential watch-set specification (LinTrace.tla).  A race report, panic or hang is reported too."""
import json
import os
import shutil
import subprocess
import time

import engines
from engines import HERE, Infra, log


def history_of(path, idx):
    out, on = [], False
    for ln in open(path):
        try:
            m = json.loads(ln)
        except Exception:
            continue
        if m.get("k") == "prog":
            on = m.get("idx") == idx
        if on:
            out.append(ln)
        if on and m.get("k") == "endprog":
            break
    return out


def signature(lines):
    """cause signature of an unexplained history: the unusual results in it (labels only; the verdict is TLC's)"""
    odd = set()
    closing = False
    for ln in lines:
        m = json.loads(ln)
        if m.get("k") == "call" and m.get("op") == "close":
            closing = True
        if m.get("k") == "ret" and m.get("res") not in ("ok", "ErrClosed", "ErrNonExistentWatch"):
            odd.add("%s:%s%s" % (m["op"], m["res"], ":racing_close" if closing else ""))
    return "not_linearizable" + ("[" + ",".join(sorted(odd)) + "]" if odd else "")


def run(prop, tier, seed, plan, replay_dir=None, merge=False, full=False, only_longadd=False):
    """merge=True: the property's main evidence file exists already (written by the scenario engine); add to it"""
    t0 = time.time()
    tmp = engines.scratch()
    try:
        stress = engines.build("inostress", race=True)
        nprog = int((200 if tier == "quick" else 2500) * float(os.environ.get("VERIF_SCALE", "1")))
        if merge and not full:
            nprog = nprog // 2
        seeds = [seed] if tier == "quick" else [seed, seed + 1, seed + 2]
        if replay_dir:
            meta = json.load(open(os.path.join(replay_dir, "violation.json")))
            seeds, nprog = [meta["seed"]], meta["nprog"]
        viols, known_hit = [], {}
        kf = engines.known_findings()
        total = explained = states = gen = 0
        samples = []
        modes = {}
        # two passes per seed: random programs judged for linearizability against the sequential watch-set specification
        # (LinTrace), and programs inside the universe of the scheduling model judged against that model (SchedTrace:
        # TLC searches for an internal schedule of InotifySched that explains everything observed from outside)
        nsched = int((150 if tier == "quick" else 1000) * float(os.environ.get("VERIF_SCALE", "1")))
        if merge and not full:
            nsched = nsched // 2
        passes = ([(sd, "lin", "LinTrace", nprog, []) for sd in seeds]
                  + [(sd, "sched", "SchedTrace", nsched - nsched // 3, ["-mode", "sched"]) for sd in seeds]
                  + [(sd, "sched2", "SchedTrace_cap2", nsched // 3, ["-mode", "sched", "-cap", "2"]) for sd in seeds])   # the same with a buffered Watcher
        if only_longadd:      # only the programs in which Close meets a long-running Add (judged by LinTrace and the fresh-Watcher census)
            passes = [(sd, "longadd", "LinTrace", 80 if tier == "quick" else 600, ["-mode", "longadd"]) for sd in seeds]
        if replay_dir:
            which = meta.get("pass", "lin")
            passes = [x for x in passes if x[1] == which]
        sched_total = sched_ok = 0
        for sd, pname, spec, npass, extra in passes:
            hist = os.path.join(tmp, "hist-%s-%d.ndjson" % (pname, sd))
            p = subprocess.run([stress, "-out", hist, "-n", str(npass), "-seed", str(sd)] + extra, capture_output=True, text=True, env=dict(os.environ, TMPDIR=tmp))
            if p.returncode != 0:
                log("INFRA-ERROR: inostress rc=%d %s" % (p.returncode, (p.stdout + p.stderr)[-1500:]))
                return 2
            d = engines.spec_copy(os.path.join(tmp, "tr-%s-%d" % (pname, sd)))
            outj = os.path.join(d, "out.json")
            e = engines.tlc_env(d)
            e["TRACE"], e["TRACE_OUT"] = hist, outj
            p = subprocess.run(["timeout", "3000", "tlc", "-workers", "1", "-metadir", os.path.join(d, "meta"), "-config", spec + ".cfg", spec.split("_")[0] + ".tla"],
                               cwd=d, env=e, capture_output=True, text=True)
            if p.returncode != 0 or not os.path.exists(outj):
                log("MODEL-ERROR: %s did not finish (rc=%d)\n%s" % (spec, p.returncode, (p.stdout + p.stderr)[-2500:]))
                return 2
            import re
            m = re.search(r"(\d+) states generated, (\d+) distinct states found", p.stdout)
            if m:
                gen += int(m.group(1))
                states += int(m.group(2))
            res = json.load(open(outj))
            progs = set(res["programs"])
            ok = set(res["explained"])
            hung = {h[0]: h[1] for h in res["hung"]}
            crashed = {c[0]: c[1] for c in res["crashed"]}
            total += len(progs)
            if pname.startswith("sched"):
                sched_total += len(progs)
            for idx in sorted(progs):
                cause = None
                if idx in crashed:
                    cause = "crash:" + crashed[idx]
                elif idx in hung and all(h.startswith("error_on_Errors:") for h in hung[idx]):
                    cause = ",".join(sorted(set(hung[idx])))           # nothing hung: a value on Errors that no failure explains
                elif idx in hung:
                    cause = "hang:" + ",".join(sorted(set(hung[idx])))
                elif idx not in ok:
                    cause = signature(history_of(hist, idx))
                    if pname.startswith("sched"):
                        cause = cause.replace("not_linearizable", "not_explained_by_scheduling_model")
                else:
                    explained += 1
                    if pname.startswith("sched"):
                        sched_ok += 1
                    continue
                # which properties does it concern?
                props = {"C07"}
                if cause.startswith("hang:"):
                    props |= {"C05"}
                    if "close" in cause or "channels_not_closed" in cause:
                        props |= {"C06", "C13"}      # a Close that never returns releases nothing
                if "foreign_kernel_watches" in cause:
                    props |= {"C12", "C13", "C06"}      # an Add outlived Close and put its watches into the next Watcher's instance
                if "error_on_Errors" in cause:
                    props |= {"C10", "C06", "C14"}      # the reader used the descriptor after Close had closed it
                if "closed channel" in cause or "racing_close" in cause:
                    props |= {"C06"}      # a call concurrent with Close must answer ErrClosed / nil, not with an error of the closed descriptor
                if prop not in props:
                    # not this property's business, but never silently dropped: the history is kept for inspection
                    nd = os.path.join(HERE, "replays", "note-%s-%s-%d-%d" % (prop, pname, sd, idx))
                    shutil.rmtree(nd, ignore_errors=True)
                    os.makedirs(nd)
                    open(os.path.join(nd, "history.ndjson"), "w").writelines(history_of(hist, idx))
                    json.dump(dict(property="C07", seed=sd, nprog=idx + 1, program=idx, cause=cause, **{"pass": pname}), open(os.path.join(nd, "violation.json"), "w"))
                    log("note: %s program %d (seed %d) cause=%s concerns %s, not %s; history kept in %s" % (pname, idx, sd, cause, ",".join(sorted(props)), prop, nd))
                    continue
                k = engines.match_known(prop, cause, kf)
                if k:
                    known_hit.setdefault(k["cause"], (k, "seed %d program %d" % (sd, idx)))
                else:
                    viols.append((sd, idx, cause, hist, pname))
            if len(samples) < 2:
                hl = history_of(hist, sorted(progs)[0])
                samples.append([json.loads(x) for x in hl[:30]])
            for ln in open(hist):
                if ln.startswith('{"cap"') or '"k":"prog"' in ln:
                    try:
                        mm = json.loads(ln)
                        if mm.get("k") == "prog":
                            modes[mm["mode"]] = modes.get(mm["mode"], 0) + 1
                    except Exception:
                        pass
        rc = 0
        seen = set()
        nrep = 0
        for sd, idx, cause, hist, pname in viols:
            if cause in seen and nrep >= 3:
                continue
            seen.add(cause)
            if nrep >= 6:
                break
            rd = os.path.join(HERE, "replays", "%s-%s-%d-c%d" % (prop, tier, seed, nrep))
            shutil.rmtree(rd, ignore_errors=True)
            os.makedirs(rd)
            open(os.path.join(rd, "history.ndjson"), "w").writelines(history_of(hist, idx))
            json.dump(dict(property=prop, seed=sd, nprog=idx + 1, program=idx, cause=cause, **{"pass": pname}), open(os.path.join(rd, "violation.json"), "w"))
            log("violation: seed=%d program=%d cause=%s" % (sd, idx, cause))
            log("VIOLATION property=%s replay=%s" % (prop, rd))
            nrep += 1
            rc = 1
        for c, (k, where) in known_hit.items():
            log("KNOWN-FINDING: property=%s cause=%s %s (e.g. %s)" % (prop, c, k["text"], where))
        if replay_dir is None and merge:
            evf = engines.evidence_path(prop)
            if os.path.exists(evf):
                ev = json.load(open(evf))
                ev["coverage"]["concurrent_programs"] = dict(programs=total, linearized=explained, tlc_states=states, modes=modes,
                                                              explained_by_scheduling_model="%d of %d" % (sched_ok, sched_total),
                                                              rule="inostress -race histories checked by LinTrace.tla; hangs, panics and race reports are attributed to this property")
                ev["coverage"]["states"] = ev["coverage"].get("states", 0) + states
                ev["coverage"]["transitions"] = ev["coverage"].get("transitions", 0) + gen
                ev["coverage"]["traces_validated_against_impl"] = ev["coverage"].get("traces_validated_against_impl", 0) + explained
                ev["violations"] = ev.get("violations", 0) + len(viols)
                ev["wall_s"] = round(ev.get("wall_s", 0) + time.time() - t0, 1)
                json.dump(ev, open(evf, "w"), indent=1)
        elif replay_dir is None:
            ev = dict(property_id=prop, tier=tier, seed=seed, level="model_checking",
                      coverage=dict(states=max(states, 1), transitions=max(gen, 1), traces_validated_against_impl=explained,
                                    evaluations=total, distinct_nontrivial=total,
                                    rule="random concurrent programs (2-4 API goroutines x 6-15 calls on 3 overlapping paths, 2 file system goroutines, consumer pace fast/slow/"
                                         "events-only/late, GOMAXPROCS 1/2/4/16, buffer 0/1/16; one program in five is a 'duel': 20-50 rounds of Remove(p) against 1-3 Add(p) started together "
                                         "while the reader is parked, bracketed by WatchList before and after the consumer catches up), built with -race; every program is distinct (seeded) and non-trivial (concurrent calls); "
                                         "a second batch stays inside the universe of the scheduling model (one watched file, chmod / rename-away / delete, polling consumer) and is "
                                         "validated against InotifySched with all internal steps silent (SchedTrace.tla); modes: " + json.dumps(modes),
                                    programs_linearized=explained, programs_explained_by_scheduling_model="%d of %d" % (sched_ok, sched_total),
                                    samples=samples, exhaustive=False),
                      assumptions=["the race detector is the observation channel for 'no data races'; schedules are those the Go scheduler produced under -race",
                                   "a call that has not returned after 8 s is reported as a hang"],
                      wall_s=round(time.time() - t0, 1), violations=len(viols))
            os.makedirs(os.path.join(HERE, "evidence"), exist_ok=True)
            json.dump(ev, open(engines.evidence_path(prop), "w"), indent=1)
        log("%s %s seed=%d: %d programs, %d linearized, %d violations, %d known, %.1fs" % (prop, tier, seed, total, explained, len(viols), len(known_hit), time.time() - t0))
        return rc
    finally:
        shutil.rmtree(tmp, ignore_errors=True)


def replay(prop, path, plan):
    return run(prop, "quick", int(os.environ.get("VERIF_SEED", "1")), plan, replay_dir=path)

"""Concurrent use of the kqueue backend (C17 quantifies over schedules): kqstress runs random concurrent programs
(Add / Remove / WatchList / Close on overlapping paths, entries of the watched directories coming and going, varied
consumer pace and GOMAXPROCS) against the backend on the simulated kqueue, built with -race.  Judged: race reports,
panics, hangs, and - the Released invariant of spec/KqueueTables.tla observed on the real code - that the simulator
holds no descriptor once Close has returned and both channels are closed.  The call/return histories are also given
to LinTrace (linearizability against the sequential watch-set specification); the kqueue backend takes no lock
around Add / Remove, so that result is reported as a note, not as a verdict on C17."""
import json
import os
import shutil
import subprocess
import time

import engines
from engines import HERE, log


def run(prop, tier, seed):
    t0 = time.time()
    tmp = engines.scratch()
    try:
        stress = engines.build("kqstress", race=True)
        n = int((60 if tier == "quick" else 600) * float(os.environ.get("VERIF_SCALE", "1")))
        hist = os.path.join(tmp, "kqhist.ndjson")
        p = subprocess.run([stress, "-out", hist, "-n", str(n), "-seed", str(seed)], capture_output=True, text=True, env=dict(os.environ, TMPDIR=tmp))
        if p.returncode != 0:
            log("INFRA-ERROR: kqstress rc=%d %s" % (p.returncode, (p.stdout + p.stderr)[-1500:]))
            return 2
        progs, causes, left = 0, {}, []
        for ln in open(hist):
            try:
                m = json.loads(ln)
            except Exception:
                continue
            if m.get("k") == "prog":
                progs += 1
                cur = m["idx"]
            elif m.get("k") == "crash":
                causes.setdefault("kqconc:crash:" + m["cls"], []).append(cur)
            elif m.get("k") == "endprog" and m.get("hang"):
                for h in sorted(set(m["hang"])):
                    causes.setdefault("kqconc:" + (h if h.startswith("descriptors") or h.startswith("channels") else "hang:" + h), []).append(cur)
            elif m.get("k") == "infra" and str(m.get("what", "")).startswith("left open"):
                left.append(m["what"])
        # linearizability of the histories: a note
        lin_note = ""
        d = engines.spec_copy(os.path.join(tmp, "tr-kqlin"))
        outj = os.path.join(d, "out.json")
        e = engines.tlc_env(d)
        e["TRACE"], e["TRACE_OUT"] = hist, outj
        q = subprocess.run(["timeout", "1200", "tlc", "-workers", "1", "-metadir", os.path.join(d, "meta"), "-config", "LinTrace.cfg", "LinTrace.tla"],
                           cwd=d, env=e, capture_output=True, text=True)
        if q.returncode == 0 and os.path.exists(outj):
            res = json.load(open(outj))
            unexpl = sorted(set(res["programs"]) - set(res["explained"]))
            lin_note = "%d of %d histories are linearizable" % (len(res["programs"]) - len(unexpl), len(res["programs"]))
            log("note: kqueue backend under concurrent use: %s (Add/Remove take no common lock; not a listed property of this backend)" % lin_note)
        kf = engines.known_findings()
        rc, nviol, known = 0, 0, {}
        for cause, idxs in sorted(causes.items()):
            k = engines.match_known(prop, cause, kf)
            if k:
                known[cause] = (k, idxs)
                continue
            nviol += len(idxs)
            rd = os.path.join(HERE, "replays", "%s-%s-%d-kq%d" % (prop, tier, seed, len(known) + nviol))
            shutil.rmtree(rd, ignore_errors=True)
            os.makedirs(rd)
            shutil.copy(hist, os.path.join(rd, "kqhistory.ndjson"))
            json.dump(dict(property=prop, seed=seed, cause=cause, programs=idxs[:10], engine="kqstress"), open(os.path.join(rd, "violation.json"), "w"))
            log("violation: kqstress seed=%d programs=%s cause=%s" % (seed, idxs[:5], cause))
            log("VIOLATION property=%s replay=%s" % (prop, rd))
            rc = 1
        for cause, (k, idxs) in known.items():
            log("KNOWN-FINDING: property=%s cause=%s %s (%d programs, e.g. kqstress seed %d program %d)" % (prop, cause, k["text"], len(idxs), seed, idxs[0]))
        evf = engines.evidence_path(prop)
        if os.path.exists(evf):
            ev = json.load(open(evf))
            ev["coverage"]["kqueue_concurrent_programs"] = dict(programs=progs, causes={c: len(i) for c, i in causes.items()}, linearizability_note=lin_note,
                                                                 descriptors_left_examples=left[:5],
                                                                 rule="kqstress -race: race reports, panics, hangs and descriptors left open after Close are attributed to this property")
            ev["violations"] = ev.get("violations", 0) + nviol
            ev["known_findings_hit"] = sorted(set(ev.get("known_findings_hit", []) + list(known)))
            ev["wall_s"] = round(ev.get("wall_s", 0) + time.time() - t0, 1)
            json.dump(ev, open(evf, "w"), indent=1)
        log("%s %s seed=%d: %d concurrent kqueue programs, %d violations, %d known, %.1fs" % (prop, tier, seed, progs, nviol, len(known), time.time() - t0))
        return rc
    finally:
        shutil.rmtree(tmp, ignore_errors=True)

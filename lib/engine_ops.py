"""E4: the translation tables and renderings (C15, C16).  opsrun evaluates the real functions on their
complete bounded input spaces; TLC compares the records with Ops.tla (OpsTrace.tla) after checking the
design-level theorems about the tables (MC_Ops.tla)."""
import json
import os
import shutil
import subprocess
import time

import engines
from engines import HERE, Infra, log

GROUPS = {"C15": "c15", "C16": "c16"}


def run(prop, tier, seed, plan, replay_dir=None):
    t0 = time.time()
    tmp = engines.scratch()
    try:
        opsrun = engines.build("opsrun")
        mc = engines.run_mc("MC_Ops", tmp, tier, timeout=900)
        if not mc["ok"]:
            log("MODEL-ERROR: MC_Ops: a design-level theorem about the tables of Ops.tla fails or TLC did not finish")
            log(mc["out"][-1500:])
            return 2
        rec = os.path.join(tmp, "ops.ndjson")
        high = "4096" if tier == "quick" else "40000"
        p = subprocess.run([opsrun, "-out", rec, "-seed", str(seed), "-high", high], capture_output=True, text=True, env=dict(os.environ, TMPDIR=tmp))
        if p.returncode != 0:
            log("INFRA-ERROR: opsrun rc=%d %s" % (p.returncode, (p.stdout + p.stderr)[-1500:]))
            return 2
        d = engines.spec_copy(os.path.join(tmp, "tr"))
        outj = os.path.join(d, "out.json")
        e = engines.tlc_env(d)
        e["TRACE"], e["TRACE_OUT"] = rec, outj
        p = subprocess.run(["timeout", "1500", "tlc", "-workers", "1", "-metadir", os.path.join(d, "meta"), "-config", "OpsTrace.cfg", "OpsTrace.tla"],
                           cwd=d, env=e, capture_output=True, text=True)
        if p.returncode != 0 or not os.path.exists(outj):
            log("MODEL-ERROR: OpsTrace could not evaluate the records (rc=%d)\n%s" % (p.returncode, (p.stdout + p.stderr)[-2500:]))
            return 2
        res = json.load(open(outj))[GROUPS[prop]]
        viols = []
        n = 0
        for name, r in sorted(res.items()):
            n += r["n"]
            if not r.get("covered", True) or not r.get("other", True):
                log("MODEL-ERROR: %s: the recorded input set is not the one the specification states (driver and spec disagree)" % name)
                return 2
            if r["bad"] > 0:
                viols.append((name, r))
        rc = 0
        for i, (name, r) in enumerate(viols):
            rd = os.path.join(HERE, "replays", "%s-%s-%d-%d" % (prop, tier, seed, i))
            shutil.rmtree(rd, ignore_errors=True)
            os.makedirs(rd)
            json.dump(dict(property=prop, table=name, mismatches=r["bad"], examples=r["ex"]), open(os.path.join(rd, "violation.json"), "w"), indent=1)
            log("violation: table=%s mismatches=%d e.g. %s" % (name, r["bad"], json.dumps(r["ex"])[:300]))
            log("VIOLATION property=%s replay=%s" % (prop, rd))
            rc = 1
        if replay_dir is None:
            samples = []
            nontriv = 0      # measured: evaluations whose output is not the trivial one (no operation / empty mask / false / "[no events]")
            with open(rec) as f:
                for ln in f:
                    m = json.loads(ln)
                    if prop == "C15":
                        if m["k"] in ("ino_ev", "kq", "win"):
                            nontriv += sum(1 for r in m["recs"] if r[1] != 0)
                        if m["k"] == "win":
                            nontriv += sum(1 for r in m["filter"] if r[1] != 0) + sum(1 for r in m["actions"] if r[1] != 0)
                        if m["k"] == "ino_req":
                            nontriv += sum(1 for r in m["recs"] if r["mask"] != 0)
                    if prop == "C16":
                        if m["k"] == "op":
                            nontriv += sum(h.count("1") for h in m["has"]) + sum(1 for x in m["str"] if x != "[no events]")
                        if m["k"] == "evstr":
                            nontriv += sum(1 for r in m["recs"] if r["op"] % 512 != 0)
                    if prop == "C15" and m["k"] in ("ino_ev", "kq", "win"):
                        samples.append({m["k"]: m["recs"][1:6]})
                    if prop == "C15" and m["k"] == "ino_req":
                        samples.append({m["k"]: m["recs"][60:63]})
                    if prop == "C16" and m["k"] == "op":
                        samples.append({"op": [dict(val=m["vals"][i], has=m["has"][i], str=m["str"][i]) for i in (0, 3, 511, len(m["vals"]) - 1)]})
                    if prop == "C16" and m["k"] == "evstr":
                        samples.append({"evstr": m["recs"][5:8] + m["recs"][-2:]})
            ev = dict(property_id=prop, tier=tier, seed=seed, level="model_checking",
                      coverage=dict(evaluations=n, distinct_nontrivial=nontriv,
                                    rule="every input of the finite input sets stated in spec/OpsTrace.tla (Covered checks them against the records); all inputs are distinct; "
                                         "non-trivial = evaluations whose recorded output is not the trivial one (no operation, empty mask, false, '[no events]'), counted from the records; "
                                         "sampled part: Op values above 16 bits (seeded)",
                                    tables={k: dict(inputs=v["n"], mismatches=v["bad"]) for k, v in res.items()},
                                    design_theorems="MC_Ops.tla: union homomorphism per backend, request table observes exactly the requested ops, Has = intersection, OpString injective on defined bits",
                                    samples=samples, exhaustive=True),
                      assumptions=["kqueue / Windows functions are the working tree's source text compiled on Linux against constant stubs (harness/cmd/extract); native constants as in x/sys",
                                   "strconv.Quote is taken as the uninterpreted quoting function q in EventString"],
                      wall_s=round(time.time() - t0, 1), violations=len(viols))
            os.makedirs(os.path.join(HERE, "evidence"), exist_ok=True)
            json.dump(ev, open(engines.evidence_path(prop), "w"), indent=1)
        log("%s %s seed=%d: %d evaluations, %d tables with mismatches, %.1fs" % (prop, tier, seed, n, len(viols), time.time() - t0))
        return rc
    finally:
        shutil.rmtree(tmp, ignore_errors=True)


def replay(prop, path, plan):
    return run(prop, "quick", int(os.environ.get("VERIF_SEED", "1")), plan, replay_dir=path)

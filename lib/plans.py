"""Per-property plans: which scenario families are generated, how many, and which
model-checking configurations are run, per tier.  Families are defined in gen/gen.py;
(family, n, params) -- n is scaled by VERIF_SCALE (default 1)."""

INO = "ino"

PLANS = {
    "C01": dict(engine=INO, mc=["MC_Events"],
                quick=[("rand", 300, ""), ("burst", 24, "ks=2+3+17+240+2049"), ("withops", 60, ""), ("moves", 40, ""), ("lag", 120, ""), ("cwd", 30, ""), ("endwatch", 60, ""), ("dselfskip", 30, ""), ("heldparent", 30, ""), ("reops", 40, ""), ("ovflate", 2, ""), ("tlcev", 367, "k=3"), ("tlcev", 300, "k=4"), ("tlcevlag", 400, "k=3"), ("tlcevlag", 300, "k=4")],
                thorough=[("rand", 6000, ""), ("rand", 1500, "maxops=40"), ("burst", 200, "ks=2+3+17+240+2049+5000"), ("withops", 1500, ""), ("moves", 800, ""), ("overflow", 1, "extra=4000"),
                          ("lag", 3000, ""), ("cwd", 400, ""), ("endwatch", 1500, ""), ("dselfskip", 300, ""), ("heldparent", 400, ""), ("reops", 600, ""), ("ovflate", 12, ""), ("tlcevheld", 1453, "k=4"), ("tlcevheldlag", 4000, "k=4"), ("tlcev", 3000, "k=4"), ("tlcev", 8000, "k=5"), ("tlcevlag", 1500, "k=3"), ("tlcevlag", 8000, "k=4")]),
    "C02": dict(engine=INO, mc=["MC_Events"],
                quick=[("rand", 300, ""), ("lag", 120, ""), ("wsrand", 100, ""), ("withops", 40, ""), ("repoint", 60, ""), ("endwatch", 80, ""), ("recurse", 100, ""), ("recerr", 40, ""), ("heldparent", 30, ""), ("reops", 40, ""), ("tlcev", 367, "k=3"), ("tlcev", 300, "k=4"), ("tlcevlag", 400, "k=3"), ("tlcevlag", 300, "k=4")],
                thorough=[("rand", 5000, ""), ("lag", 2000, ""), ("wsrand", 2000, ""), ("withops", 800, ""), ("repoint", 800, ""), ("endwatch", 1500, ""), ("recurse", 2000, ""), ("heldparent", 400, ""), ("reops", 600, ""), ("tlcev", 3000, "k=4"), ("tlcev", 8000, "k=5"), ("tlcevlag", 1500, "k=3"), ("tlcevlag", 8000, "k=4")]),
    "C03": dict(engine=INO, mc=["MC_Events"],
                quick=[("rand", 300, ""), ("burst", 20, "ks=2+3+17+240+700"), ("paced", 40, ""), ("absorb", 24, ""), ("moves", 60, ""), ("lag", 100, ""), ("endwatch", 60, ""), ("heldparent", 40, ""), ("recerr", 40, ""), ("tlcev", 367, "k=3"), ("tlcev", 300, "k=4"), ("tlcevlag", 400, "k=3"), ("tlcevlag", 300, "k=4"), ("tlcevheldlag", 300, "k=4")],
                thorough=[("rand", 5000, ""), ("burst", 200, "ks=2+3+17+240+2049+5000"), ("paced", 600, ""), ("absorb", 200, ""), ("moves", 1500, ""), ("lag", 2000, ""), ("endwatch", 1000, ""), ("heldparent", 600, ""), ("recerr", 400, ""), ("tlcev", 3000, "k=4"), ("tlcev", 8000, "k=5"), ("tlcevlag", 1500, "k=3"), ("tlcevlag", 8000, "k=4"), ("tlcevheld", 6000, "k=5"), ("tlcevheldlag", 7911, "k=4")]),
    "C04": dict(engine=INO, mc=["MC_WatchSet"],
                quick=[("wsexh", 196, "k=2"), ("wsexh", 900, "k=3"), ("wsrand", 200, ""), ("repoint", 60, ""), ("tlcws", 600, "k=3"), ("tlcwslag", 334, "k=3"), ("tlcwslag", 400, "k=4"), ("lag", 150, ""), ("endwatch", 100, ""), ("wlpark", 40, ""), ("reops", 60, ""), ("badarg", 8, "")],
                thorough=[("wsexh", 196, "k=2"), ("wsexh", 2744, "k=3"), ("wsexh", 38416, "k=4"), ("wsrand", 6000, ""), ("repoint", 600, ""), ("tlcws", 100000, "k=4"), ("tlcwslag", 12000, "k=4"),
                          ("lag", 3000, ""), ("endwatch", 2000, ""), ("wlpark", 400, ""), ("reops", 800, ""), ("ovfend", 3, ""), ("badarg", 40, "")]),
    "C05": dict(engine=INO, mc=["MC_Sched", "MC_SchedLive"], also_lin=True,
                quick=[("lag", 300, ""), ("close", 100, ""), ("stall", 40, ""), ("ovfstall", 1, "mode=calls"), ("ovfstall", 1, "mode=close"), ("readfault", 40, ""), ("recerr", 40, "")],
                thorough=[("lag", 5000, ""), ("close", 2000, ""), ("stall", 600, ""), ("ovfstall", 12, ""), ("readfault", 600, ""), ("recerr", 600, "")]),
    "C06": dict(engine=INO, mc=["MC_Sched"], also_lin=True,
                quick=[("close", 300, ""), ("lag", 100, ""), ("ovfstall", 1, "mode=close"), ("readfault", 30, ""), ("recerr", 20, "")],
                thorough=[("close", 5000, ""), ("lag", 1500, ""), ("ovfstall", 12, ""), ("readfault", 400, ""), ("recerr", 300, "")]),
    "C08": dict(engine=INO, mc=["MC_Events"],
                quick=[("spell", 240, ""), ("burst", 24, "ks=17+240+700"), ("rand", 150, ""), ("repoint", 80, ""), ("rootwatch", 8, ""), ("recurse", 100, ""), ("cwd", 20, ""), ("tlcev", 367, "k=3"), ("tlcev", 300, "k=4"), ("tlcevlag", 400, "k=3"), ("tlcevlag", 300, "k=4")],
                thorough=[("spell", 4000, ""), ("burst", 300, "ks=17+240+2049"), ("rand", 3000, ""), ("repoint", 1000, ""), ("rootwatch", 60, ""), ("recurse", 1500, ""), ("cwd", 300, ""), ("tlcev", 3000, "k=4"), ("tlcev", 8000, "k=5"), ("tlcevlag", 1500, "k=3"), ("tlcevlag", 8000, "k=4")]),
    "C09": dict(engine=INO, mc=["MC_WatchSet", "MC_WatchSet_ops", "MC_Events", "MC_Events_held"],
                quick=[("lag", 200, ""), ("endwatch", 200, ""), ("rand", 150, ""), ("wsrand", 100, ""), ("repoint", 80, ""), ("tlcwslag", 334, "k=3"), ("tlcwslag", 300, "k=4"), ("wlpark", 40, ""), ("dselfskip", 30, ""), ("heldparent", 40, ""), ("reops", 80, ""), ("tlcevheld", 300, "k=4"), ("tlcevheldlag", 300, "k=4")],
                thorough=[("lag", 4000, ""), ("endwatch", 4000, ""), ("rand", 3000, ""), ("wsrand", 2000, ""), ("repoint", 1000, ""), ("tlcwslag", 12000, "k=4"), ("wlpark", 400, ""), ("dselfskip", 300, ""), ("heldparent", 600, ""), ("reops", 1200, ""), ("tlcevheld", 1453, "k=4"), ("tlcevheld", 6000, "k=5"), ("tlcevheldlag", 7911, "k=4"), ("ovfend", 3, "")]),
    "C10": dict(engine=INO, mc=["MC_Sched"], also_longadd=True,
                quick=[("lag", 200, ""), ("rand", 100, ""), ("overflow", 1, "extra=6"), ("ovflate", 2, ""), ("ovfstall", 1, ""), ("readfault", 30, ""), ("recurse", 100, ""), ("recerr", 30, "")],
                thorough=[("lag", 5000, ""), ("rand", 3000, ""), ("overflow", 3, "extra=1+6+4000"), ("ovflate", 12, ""), ("ovfstall", 6, ""), ("readfault", 600, ""), ("recurse", 2000, ""), ("recerr", 400, "")]),
    "C11": dict(engine=INO, mc=["MC_Events"],
                quick=[("moves", 300, ""), ("parmoves", 60, ""), ("multix", 20, ""), ("slowpair", 8, ""), ("cwd", 40, ""), ("tlcev", 367, "k=3"), ("tlcev", 300, "k=4"), ("tlcevlag", 400, "k=3"), ("tlcevlag", 300, "k=4")],
                thorough=[("moves", 8000, ""), ("moves", 1000, "depth=80"), ("parmoves", 1500, ""), ("multix", 300, ""), ("slowpair", 48, ""), ("slowpair", 16, "ms=11000"), ("cwd", 400, ""), ("tlcev", 3000, "k=4"), ("tlcev", 8000, "k=5"), ("tlcevlag", 1500, "k=3"), ("tlcevlag", 8000, "k=4")]),
    "C12": dict(engine=INO, mc=["MC_WatchSet"], also_longadd=True,
                quick=[("wsexh", 700, "k=3"), ("cycle", 6, "n=150"), ("wsrand", 150, ""), ("repoint", 60, ""), ("endwatch", 80, ""), ("tlcws", 600, "k=3"), ("tlcwslag", 334, "k=3"), ("tlcwslag", 300, "k=4"), ("recurse", 150, ""), ("tlcreclag", 400, "k=4"), ("ovfend", 1, "")],
                thorough=[("wsexh", 2744, "k=3"), ("wsexh", 12000, "k=4"), ("cycle", 50, "n=1000"), ("wsrand", 5000, ""), ("repoint", 600, ""), ("endwatch", 2000, ""), ("recurse", 2000, ""), ("tlcreclag", 7000, "k=4"), ("tlcwslag", 12000, "k=4"), ("ovfend", 4, "")]),
    "C13": dict(engine=INO, mc=["MC_Sched"], also_lin=True,
                quick=[("close", 200, ""), ("newclose", 3, "n=300"), ("lag", 60, ""), ("ovfstall", 1, "mode=close"), ("readfault", 40, ""), ("closereuse", 6, "")],
                thorough=[("close", 5000, ""), ("newclose", 10, "n=1000"), ("lag", 1500, ""), ("readfault", 600, ""), ("ovfstall", 6, "mode=close"), ("closereuse", 100, "")]),
    "C14": dict(engine=INO, mc=["MC_Events", "MC_FdReuse"],
                quick=[("multi", 100, ""), ("multix", 60, ""), ("absorb", 40, ""), ("capsweep", 24, ""), ("ovflate", 2, ""), ("closereuse", 10, "")],
                thorough=[("multi", 2000, ""), ("multix", 1500, ""), ("absorb", 400, ""), ("capsweep", 400, ""), ("ovflate", 8, ""), ("closereuse", 200, "")]),
}

PLANS["C19"] = dict(engine=INO, mc=["MC_Recurse"],
                    quick=[("recurse", 300, ""), ("recerr", 30, ""), ("tlcrec", 500, "k=3"), ("tlcrec", 600, "k=4"), ("tlcreclag", 600, "k=4")],
                    thorough=[("recurse", 8000, ""), ("recerr", 400, ""), ("tlcrec", 5000, "k=4"), ("tlcrec", 12000, "k=5"), ("tlcreclag", 7000, "k=4"), ("tlcreclag", 8000, "k=5")])
_KQ = dict(engine="kq", driver="kqrun", trace_spec="KqueueTrace", mc=["MC_Kq"],
           assumptions=["the kqueue backend is the working tree's source compiled on Linux against a simulated kqueue (harness/simkq/unix): real descriptors on a real "
                        "directory tree, NOTE_* raised per operation as FreeBSD's vop_*_post hooks do, all notes of one operation raised atomically",
                        "the simulation is calibrated against the repository's recorded kqueue expectations: bin/kqcalibrate replays every testdata script the repository runs on FreeBSD "
                        "(all 40 applicable ones of watch-dir, watch-file, watch-symlink) through the backend on the simulator and obtains exactly the recorded freebsd/kqueue events; a real BSD kernel is not observed",
                        "quiescence is detected from goroutine states and the simulator's pending-knote count"])
PLANS["C17"] = dict(_KQ, also_kqstress=True, quick=[("kqdir", 250, ""), ("kqsym", 60, ""), ("kqcycle", 6, "n=100"), ("kqburst", 20, ""), ("kqfault", 30, ""), ("kqkfault", 40, ""), ("kqnested", 40, ""), ("kqseq", 60, ""), ("kqdot", 30, ""), ("kqredir", 30, ""), ("kqblind", 20, ""), ("tlckq", 1100, "k=3"), ("tlckq", 1500, "k=4")],
                    thorough=[("kqdir", 6000, ""), ("kqsym", 1500, ""), ("kqcycle", 30, "n=1000"), ("kqburst", 300, ""), ("kqfault", 400, ""), ("kqkfault", 600, ""), ("kqnested", 1000, ""), ("kqseq", 1500, ""), ("kqdot", 500, ""), ("kqredir", 400, ""), ("kqblind", 300, ""), ("tlckq", 20000, "k=4"), ("tlckq", 30000, "k=5")])
PLANS["C18"] = dict(_KQ, quick=[("kqdir", 300, ""), ("kqsym", 60, ""), ("kqburst", 40, ""), ("kqnested", 60, ""), ("kqseq", 120, ""), ("kqdot", 40, ""), ("kqredir", 30, ""), ("kqblind", 20, ""), ("tlckq", 1100, "k=3"), ("tlckq", 1500, "k=4")],
                    thorough=[("kqdir", 8000, ""), ("kqsym", 1500, ""), ("kqburst", 600, ""), ("kqnested", 1500, ""), ("kqseq", 3000, ""), ("kqdot", 800, ""), ("kqredir", 400, ""), ("kqblind", 300, ""), ("tlckq", 20000, "k=4"), ("tlckq", 30000, "k=5")])
PLANS["C15"] = dict(engine="ops", also_ino=dict(quick=[("withops", 150, ""), ("reops", 80, "")], thorough=[("withops", 3000, ""), ("reops", 1500, "")]))
PLANS["C16"] = dict(engine="ops")
PLANS["C20"] = dict(engine="diff")
# C07: concurrent histories (stress engine) + the Add/Remove-versus-reader interleavings that a sequential driver can force
PLANS["C07"] = dict(engine="lin", mc=["MC_Sched"],
                    also_ino=dict(quick=[("lag", 120, ""), ("endwatch", 120, ""), ("close", 60, ""), ("ovfstall", 1, "mode=calls"), ("recerr", 20, "")],
                                  thorough=[("lag", 3000, ""), ("endwatch", 3000, ""), ("close", 1500, ""), ("ovfstall", 6, ""), ("recerr", 300, "")]))
# a violation of the sequential result specification (C04) in such a history is also a C07 violation
ALIAS = {"C07": ("C04",)}

TEXT = {
    "C01": "No lost events", "C02": "No phantom events", "C03": "Order", "C04": "Watch-set semantics",
    "C05": "Control calls never block on consumption", "C06": "Close protocol", "C08": "Event names follow the Add argument",
    "C09": "A watch ends with its path", "C10": "Errors carries only genuine failures", "C11": "Rename correlation",
    "C12": "Kernel marks and tables in step", "C13": "Close releases everything", "C14": "Independence from buffering / other Watchers",
}

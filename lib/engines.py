"""Engines behind bin/check: build the harness from $REPO, run model checking (TLC on the
bounded models), generate scenarios, replay them on the real code, validate the traces
with TLC, classify, write evidence."""
import fnmatch
import hashlib
import json
import os
import re
import shutil
import subprocess
import sys
import tempfile
import time

import plans

HERE = os.path.dirname(os.path.dirname(os.path.abspath(__file__)))
REPO = os.environ.get("REPO", "/repo")
GOENV = dict(os.environ, GOFLAGS="-mod=mod", GOPROXY="off", GOSUMDB="off", GOTOOLCHAIN="local")
ALL_CMDS = ["inorun", "opsrun", "diffrun", "kqrun"]
RACE_CMDS = ["inostress", "kqstress"]
JOBS = int(os.environ.get("VERIF_JOBS", "12"))


class Infra(Exception):
    pass


def log(*a):
    print(*a, flush=True)


def scratch():
    base = os.environ.get("TMPDIR", "/tmp")
    return tempfile.mkdtemp(prefix="vchk-", dir=base)


# ----------------------------------------------------------------------------- build

NEED_EXTRACT = {"opsrun", "kqrun", "kqstress", "diffrun"}


def build(cmd, race=False, tags="verif"):
    """Build harness/cmd/<cmd> against $REPO's working tree. Returns the binary path."""
    if cmd in NEED_EXTRACT:
        import fcntl
        os.makedirs(os.path.join(HERE, "work"), exist_ok=True)
        with open(os.path.join(HERE, "work", "extract.lock"), "w") as lk:
            fcntl.flock(lk, fcntl.LOCK_EX)
            hdir = os.path.join(HERE, "harness")
            p = subprocess.run(["go", "run", "./cmd/extract", "-repo", REPO, "-out", "zz_gen/CUR"], cwd=hdir, env=GOENV, capture_output=True, text=True)
            if p.returncode != 0:
                raise Infra("extraction of backend sources from %s failed:\n%s" % (REPO, (p.stdout + p.stderr)[-3000:]))
            return _build(cmd, race, tags)
    return _build(cmd, race, tags)


def _build(cmd, race=False, tags="verif"):
    hdir = os.path.join(HERE, "harness")
    outdir = os.path.join(HERE, "work", "bin")
    os.makedirs(outdir, exist_ok=True)
    key = hashlib.sha1(REPO.encode()).hexdigest()[:8]
    out = os.path.join(outdir, "%s-%s%s" % (cmd, key, "-race" if race else ""))
    if REPO != "/repo":
        import atexit
        atexit.register(lambda: [os.remove(f) for f in (out, os.path.join(HERE, "work", "go-%s.mod" % key), os.path.join(HERE, "work", "go-%s.sum" % key)) if os.path.exists(f)])
    modfile = os.path.join(hdir, "go.mod")
    args = ["go", "build", "-tags", tags, "-o", out]
    if REPO != "/repo":
        modfile = os.path.join(HERE, "work", "go-%s.mod" % key)
        src = open(os.path.join(hdir, "go.mod")).read().replace("=> /repo", "=> " + REPO)
        open(modfile, "w").write(src)
        shutil.copy(os.path.join(REPO, "go.sum"), modfile[:-4] + ".sum")
        args += ["-modfile", modfile]
    else:
        shutil.copy(os.path.join(REPO, "go.sum"), os.path.join(hdir, "go.sum"))
    if race:
        args.append("-race")
    args.append("./cmd/" + cmd)
    p = subprocess.run(args, cwd=hdir, env=GOENV, capture_output=True, text=True)
    if p.returncode != 0:
        raise Infra("build of %s failed (does the working tree compile with -tags verif?):\n%s" % (cmd, p.stderr[-3000:]))
    return out


# ----------------------------------------------------------------------------- TLC

def tlc_env(tmp):
    e = dict(os.environ)
    e["JAVA_TOOL_OPTIONS"] = "-Djava.io.tmpdir=%s -Xss512m %s" % (tmp, os.environ.get("VERIF_JAVA_OPTS", ""))
    return e


def spec_copy(tmp):
    d = os.path.join(tmp, "spec")
    shutil.copytree(os.path.join(HERE, "spec"), d)
    return d


def run_mc(cfg, tmp, tier, timeout=1500):
    """Exhaustive TLC run of spec/<cfg>.cfg. Returns dict(states, distinct, ok, out)."""
    d = spec_copy(os.path.join(tmp, "mc-" + cfg))
    tla = cfg + ".tla"
    cfgfile = cfg + ("_thorough.cfg" if tier == "thorough" and os.path.exists(os.path.join(d, cfg + "_thorough.cfg")) else ".cfg")
    workers = os.environ.get("VERIF_TLC_WORKERS", "8")
    p = subprocess.run(["timeout", str(timeout), "tlc", "-workers", workers, "-metadir", os.path.join(d, "meta"), "-config", cfgfile, tla],
                       cwd=d, env=tlc_env(d), capture_output=True, text=True)
    out = p.stdout + p.stderr
    m = re.search(r"(\d+) states generated, (\d+) distinct states found", out)
    res = dict(cfg=cfgfile, rc=p.returncode, generated=int(m.group(1)) if m else 0, distinct=int(m.group(2)) if m else 0,
               ok=(p.returncode == 0 and "No error has been found" in out), out=out[-4000:])
    return res


def run_trace(spec, trace, tmp, timeout=3000):
    d = spec_copy(os.path.join(tmp, "tr-" + spec + "-" + os.path.basename(trace)))
    outj = os.path.join(d, "out.json")
    e = tlc_env(d)
    e["TRACE"] = trace
    e["TRACE_OUT"] = outj
    p = subprocess.run(["timeout", str(timeout), "tlc", "-workers", "1", "-metadir", os.path.join(d, "meta"), "-config", spec + ".cfg", spec + ".tla"],
                       cwd=d, env=e, capture_output=True, text=True)
    out = p.stdout + p.stderr
    if not os.path.exists(outj):
        raise Infra("TLC produced no result for %s (rc=%d):\n%s" % (trace, p.returncode, out[-3000:]))
    r = json.load(open(outj))
    r["tlc_rc"] = p.returncode
    r["tlc_tail"] = out[-1500:]
    m = re.search(r"(\d+) states generated, (\d+) distinct states found", out)
    r["tlc_states"] = int(m.group(2)) if m else 0
    return r


# ----------------------------------------------------------------------------- known findings

def evidence_path(prop):
    """evidence/<id>.json - unless this is an exploratory plan or a tree other than /repo (seeded changes): such runs are
    not what the committed evidence file is to describe, they write to work/evidence-adhoc/"""
    d = "evidence"
    if os.environ.get("VERIF_PLAN") or (os.environ.get("REPO") and os.environ.get("REPO") != "/repo"):
        d = os.path.join("work", "evidence-adhoc")
    os.makedirs(os.path.join(HERE, d), exist_ok=True)
    return os.path.join(HERE, d, prop + ".json")


def known_findings():
    out = []
    p = os.path.join(HERE, "known-findings.txt")
    if not os.path.exists(p):
        return out
    for ln in open(p):
        ln = ln.strip()
        if not ln.startswith("finding:"):
            continue
        m = re.match(r"finding:\s+property=(\S+)\s+cause=(\S+)\s*(.*)", ln)
        if m:
            out.append(dict(prop=m.group(1), cause=m.group(2), text=m.group(3)))
    return out


def match_known(prop, cause, kf):
    for k in kf:
        if k["prop"] == prop and fnmatch.fnmatchcase(cause, k["cause"]):
            return k
    return None


# ----------------------------------------------------------------------------- inotify engine

def gen_scenarios(plan_items, seed, out, scale=1.0):
    n_total = 0
    with open(out, "w") as f:
        for idx, (fam, n, params) in enumerate(plan_items):
            n = max(1, int(n * scale))
            args = [sys.executable, os.path.join(HERE, "gen", "gen.py"), "--fam", fam, "--n", str(n), "--seed", str(seed * 131 + idx)]
            if params:
                args += ["--param", params]
            if fam == "tlcws":       # behaviours enumerated by TLC from the code-shaped model
                k = dict(kv.split("=") for kv in params.split(",") if kv).get("k", "3")
                args = [sys.executable, os.path.join(HERE, "gen", "tlcgen.py"), "--steps", k, "--sample", str(n), "--seed", str(seed * 131 + idx)]
            if fam == "tlcevlag":    # ... the event-path model with a lagging reader
                k = dict(kv.split("=") for kv in params.split(",") if kv).get("k", "3")
                args = [sys.executable, os.path.join(HERE, "gen", "tlcgen.py"), "--model", "evlag", "--steps", k, "--sample", str(n), "--seed", str(seed * 131 + idx)]
            if fam in ("tlcevheld", "tlcevheldlag"):   # ... the event-path model with a descriptor held on the watched file
                k = dict(kv.split("=") for kv in params.split(",") if kv).get("k", "4")
                args = [sys.executable, os.path.join(HERE, "gen", "tlcgen.py"), "--model", fam[3:], "--steps", k, "--sample", str(n), "--seed", str(seed * 131 + idx)]
            if fam == "tlcev":       # ... from the event-path model
                k = dict(kv.split("=") for kv in params.split(",") if kv).get("k", "3")
                args = [sys.executable, os.path.join(HERE, "gen", "tlcgen.py"), "--model", "ev", "--steps", k, "--sample", str(n), "--seed", str(seed * 131 + idx)]
            if fam == "tlcwslag":    # ... the watch-set model with a lagging reader
                k = dict(kv.split("=") for kv in params.split(",") if kv).get("k", "3")
                args = [sys.executable, os.path.join(HERE, "gen", "tlcgen.py"), "--model", "wslag", "--steps", k, "--sample", str(n), "--seed", str(seed * 131 + idx)]
            if fam == "tlcreclag":   # ... with a lagging reader
                k = dict(kv.split("=") for kv in params.split(",") if kv).get("k", "3")
                args = [sys.executable, os.path.join(HERE, "gen", "tlcgen.py"), "--model", "reclag", "--steps", k, "--sample", str(n), "--seed", str(seed * 131 + idx)]
            if fam == "tlcrec":      # ... from the recursive-watch bookkeeping model
                k = dict(kv.split("=") for kv in params.split(",") if kv).get("k", "3")
                args = [sys.executable, os.path.join(HERE, "gen", "tlcgen.py"), "--model", "rec", "--steps", k, "--sample", str(n), "--seed", str(seed * 131 + idx)]
            if fam == "tlckq":       # ... from the kqueue bookkeeping model
                k = dict(kv.split("=") for kv in params.split(",") if kv).get("k", "3")
                args = [sys.executable, os.path.join(HERE, "gen", "tlcgen.py"), "--model", "kq", "--steps", k, "--sample", str(n), "--seed", str(seed * 131 + idx)]
            p = subprocess.run(args, capture_output=True, text=True)
            if p.returncode != 0:
                raise Infra("gen.py failed: " + p.stderr[-2000:])
            f.write(p.stdout)
            n_total += p.stdout.count("\n")
    return n_total


def split_traces(trace_path):
    """scenario id -> list of raw lines"""
    by = {}
    cur = None
    for ln in open(trace_path):
        if ln.startswith('{"'):
            try:
                k = json.loads(ln)
            except Exception:
                continue
            if k.get("k") == "reset":
                cur = k["id"]
                by[cur] = []
            if cur is not None:
                by[cur].append(ln)
            if k.get("k") == "end":
                cur = None
    return by


def run_ino(prop, tier, seed, plan, only_scn=None):
    t0 = time.time()
    tmp = scratch()
    try:
        return _run_ino(prop, tier, seed, plan, tmp, t0, only_scn)
    finally:
        shutil.rmtree(tmp, ignore_errors=True)


def steps_hash(sc):
    return hashlib.sha1(json.dumps(sc["steps"], sort_keys=True).encode()).hexdigest()


def _run_ino(prop, tier, seed, plan, tmp, t0, only_scn):
    scale = float(os.environ.get("VERIF_SCALE", "1"))
    inorun = build(plan.get("driver", "inorun"))
    # 1. model checking of the bounded models (design level)
    mc = []
    if only_scn is None and os.environ.get("VERIF_SKIP_MC") != "1":
        for cfg in plan.get("mc", []):
            if not os.path.exists(os.path.join(HERE, "spec", cfg + ".cfg")):
                continue
            r = run_mc(cfg, tmp, tier)
            mc.append(r)
            if not r["ok"]:
                log("MODEL-ERROR: %s: TLC did not complete cleanly on the bounded model (rc=%d)" % (cfg, r["rc"]))
                log(r["out"][-1500:])
                return 2
    # 2. scenarios
    scn = os.path.join(tmp, "scn.ndjson")
    if only_scn is not None:
        shutil.copy(only_scn, scn)
        nscn = sum(1 for _ in open(scn))
    else:
        fams = plan[tier]
        if os.environ.get("VERIF_PLAN"):       # ad-hoc exploration: "fam:n[:params],..." instead of the registered plan
            fams = [(x.split(":") + ["", ""])[:3] for x in os.environ["VERIF_PLAN"].split(",")]
            fams = [(f, int(n), p) for f, n, p in fams]
        nscn = gen_scenarios(fams, seed, scn, scale)
    scenarios = {}
    for ln in open(scn):
        s = json.loads(ln)
        scenarios[s["id"]] = s
    # 3. replay on the real code
    trace = os.path.join(tmp, "trace.ndjson")
    e = dict(os.environ, TMPDIR=tmp)
    p = subprocess.run([inorun, "-in", scn, "-out", trace, "-j", str(JOBS), "-tmp", tmp], env=e, capture_output=True, text=True)
    if p.returncode != 0:
        log("INFRA-ERROR: inorun rc=%d: %s" % (p.returncode, (p.stdout + p.stderr)[-2000:]))
        return 2
    # 4. validate the traces against the specification
    res = run_trace(plan.get("trace_spec", "InotifyTrace"), trace, tmp)
    if res.get("consumed") != res.get("total") or res["tlc_rc"] != 0:
        log("MODEL-ERROR: trace not consumed to the end (%s of %s lines), TLC rc=%s" % (res.get("consumed"), res.get("total"), res["tlc_rc"]))
        log(res["tlc_tail"])
        return 2
    # 5. classify
    kf = known_findings()
    known_hit = {}
    viols = []
    infra = []
    drift = []
    fog = 0
    validated = 0
    tags = {}
    nontriv = set()
    for r in res["results"]:
        sid, rr = r["id"], r["r"]
        if rr["infra"]:
            infra.append((sid, rr["infra"][0]))
            continue
        validated += 1
        if rr.get("drift"):
            drift.append((sid, rr["drift"][0]))
        if rr["fog"]:
            fog += 1
        for t in rr["tags"]:
            tags[t] = tags.get(t, 0) + 1
        if rr["tags"] and sid in scenarios:
            nontriv.add(steps_hash(scenarios[sid]))
        seen = set()
        for v in rr["viol"]:
            if prop not in v["props"] and "*" not in v["props"] and not (set(plans.ALIAS.get(prop, ())) & set(v["props"])):
                continue
            if v["cause"] in seen:
                continue
            seen.add(v["cause"])
            k = match_known(prop, v["cause"], kf)
            if k:
                known_hit.setdefault(k["cause"], (k, sid))
            else:
                viols.append((sid, v["cause"]))
    if len(infra) > max(2, validated // 50):
        log("INFRA-ERROR: %d scenarios could not be judged, e.g. %s" % (len(infra), infra[:3]))
        return 2
    # 6. replays + output
    if os.environ.get("VERIF_DUMP_VIOLS"):      # exploration aid: every deviation with the scenario that produced it
        with open(os.environ["VERIF_DUMP_VIOLS"], "w") as f:
            for sid, cause in viols:
                f.write(json.dumps(dict(id=sid, cause=cause, steps=scenarios.get(sid, {}).get("steps"))) + "\n")
    by = None
    out_lines = []
    rep_root = os.path.join(HERE, "replays")
    nrep = 0
    reported = set()
    for sid, cause in viols:
        if cause in reported and nrep >= 3:
            continue
        reported.add(cause)
        if nrep >= 8:
            break
        if by is None:
            by = split_traces(trace)
        d = os.path.join(rep_root, "%s-%s-%d-%d" % (prop, tier, seed, nrep))
        shutil.rmtree(d, ignore_errors=True)
        os.makedirs(d)
        json.dump(scenarios.get(sid, {}), open(os.path.join(d, "scenario.json"), "w"))
        open(os.path.join(d, "trace.ndjson"), "w").writelines(by.get(sid, []))
        json.dump(dict(property=prop, scenario=sid, cause=cause), open(os.path.join(d, "violation.json"), "w"))
        out_lines.append("VIOLATION property=%s replay=%s" % (prop, d))
        log("violation: scenario=%s cause=%s" % (sid, cause))
        nrep += 1
    if drift:
        log("MODEL-DRIFT: the code-shaped model predicted something else (table sizes, listed paths or delivered events) than observed in %d generated behaviours, e.g. %s" % (len(drift), json.dumps(drift[0])))
    for c, (k, sid) in known_hit.items():
        log("KNOWN-FINDING: property=%s cause=%s %s (e.g. scenario %s)" % (prop, c, k["text"], sid))
    for ln in out_lines:
        log(ln)
    # 7. evidence
    if only_scn is None:
        sample_ids = [r["id"] for r in res["results"][:2]]
        if by is None:
            by = split_traces(trace)
        samples = []
        for sid in sample_ids:
            samples.append(dict(scenario=scenarios.get(sid), trace_lines=[json.loads(x) for x in by.get(sid, [])[:40]]))
        ev = dict(
            property_id=prop, tier=tier, seed=seed, level="model_checking",
            coverage=dict(
                states=sum(m["distinct"] for m in mc) + res["tlc_states"],
                transitions=sum(m["generated"] for m in mc) + res["tlc_states"],
                model_runs=[dict(cfg=m["cfg"], distinct_states=m["distinct"], states_generated=m["generated"]) for m in mc],
                trace_validation_states=res["tlc_states"],
                traces_validated_against_impl=validated,
                trace_lines=res["total"],
                evaluations=nscn,
                distinct_nontrivial=len(nontriv),
                rule="scenario families %s from gen/gen.py (seeded); distinct = distinct step sequences; non-trivial = the trace "
                     "specification recorded at least one of the situations in situation_counts (end of watch, multi-record batch, "
                     "kernel merge, rename pair, re-point, alias, lag-window call, overflow, ambiguous match ...) while validating it"
                     % [f for f, _, _ in plan[tier]],
                situation_counts=tags,
                scenarios_not_judged_after_fog=fog,
                model_drift=len(drift),
                known_findings_hit=sorted(known_hit),
                samples=samples,
                exhaustive=False),
            assumptions=plan.get("assumptions") or [
                "kernel behaviour is taken from the shadow inotify instance recorded with every step (ground truth), not predicted",
                "quiescence is detected from goroutine states and FIONREAD; a call is 'blocked' only if still parked after %s ms" % os.environ.get("VERIF_BLOCKWAIT_MS", "2000"),
                "model-checking results hold for the stated small constants only",
            ],
            wall_s=round(time.time() - t0, 1), violations=len(viols))
        evp = evidence_path(prop)
        if plan.get("_merge_into_existing") and os.path.exists(evp):
            # the property's main engine has written the evidence file already: what the Watcher scenarios covered is added to it
            base = json.load(open(evp))
            base["coverage"]["watcher_scenarios"] = ev["coverage"]
            base["violations"] = base.get("violations", 0) + ev["violations"]
            base["wall_s"] = round(base.get("wall_s", 0) + ev["wall_s"], 1)
            base["assumptions"] = base.get("assumptions", []) + [a for a in ev.get("assumptions", []) if a not in base.get("assumptions", [])]
            ev = base
        json.dump(ev, open(evp, "w"), indent=1)
    log("%s %s seed=%d: %d scenarios, %d validated, %d lines, %d violations, %d known, %.1fs"
        % (prop, tier, seed, nscn, validated, res["total"], len(viols), len(known_hit), time.time() - t0))
    return 1 if viols else 0


def run_check(prop, tier, seed):
    plan = plans.PLANS[prop]
    try:
        if plan["engine"] == "lin" and plan.get("also_ino"):
            # the scenario engine first (it writes the evidence file), then the stress engine adds to it
            rc = run_ino(prop, tier, seed, dict(plan, quick=plan["also_ino"]["quick"], thorough=plan["also_ino"]["thorough"], mc=plan.get("mc", [])))
            if rc != 2:
                import engine_lin
                rc2 = engine_lin.run(prop, tier, seed, plan, merge=True, full=True)
                rc = 2 if rc2 == 2 else max(rc, rc2)
            return rc
        if plan["engine"] in (plans.INO, "kq"):
            rc = run_ino(prop, tier, seed, plan)
            if rc != 2 and plan.get("also_lin"):
                import engine_lin
                rc2 = engine_lin.run(prop, tier, seed, plan, merge=True)
                rc = 2 if rc2 == 2 else max(rc, rc2)
            if rc != 2 and plan.get("also_longadd"):
                import engine_lin
                rc2 = engine_lin.run(prop, tier, seed, plan, merge=True, only_longadd=True)
                rc = 2 if rc2 == 2 else max(rc, rc2)
            if rc != 2 and plan.get("also_kqstress"):
                import engine_kqstress
                rc2 = engine_kqstress.run(prop, tier, seed)
                rc = 2 if rc2 == 2 else max(rc, rc2)
            return rc
        if plan["engine"] == "ops" and plan.get("also_ino"):
            # the tables first (they write the evidence file), then Watcher scenarios that exercise subscription and translation end to end
            import engine_ops
            rc = engine_ops.run(prop, tier, seed, plan)
            if rc != 2:
                rc2 = run_ino(prop, tier, seed, dict(plan, engine=plans.INO, quick=plan["also_ino"]["quick"], thorough=plan["also_ino"]["thorough"], mc=[], _merge_into_existing=True))
                rc = 2 if rc2 == 2 else max(rc, rc2)
            return rc
        mod = __import__("engine_" + plan["engine"])
        return mod.run(prop, tier, seed, plan)
    except Infra as e:
        log("INFRA-ERROR:", e)
        return 2


def replay(prop, path):
    plan = plans.PLANS.get(prop)
    if plan is None:
        log("INFRA-ERROR: unknown property")
        return 2
    scn = os.path.join(path, "scenario.json")
    if not os.path.exists(scn):
        log("INFRA-ERROR: no scenario.json in", path)
        return 2
    try:
        if plan["engine"] == plans.INO and os.path.exists(os.path.join(path, "history.ndjson")):
            import engine_lin
            return engine_lin.replay(prop, path, plan)
        if plan["engine"] in (plans.INO, "kq"):
            tmp = scratch()
            try:
                one = os.path.join(tmp, "one.ndjson")
                open(one, "w").write(json.dumps(json.load(open(scn))) + "\n")
                return run_ino(prop, "quick", int(os.environ.get("VERIF_SEED", "1")), plan, only_scn=one)
            finally:
                shutil.rmtree(tmp, ignore_errors=True)
        mod = __import__("engine_" + plan["engine"])
        return mod.replay(prop, path, plan)
    except Infra as e:
        log("INFRA-ERROR:", e)
        return 2

"""E6: test-support Diff / DiffMatch (C20).  diffrun evaluates the working tree's diff.go on all pairs of
line sequences over {a,b,c} up to a bounded length, seeded long random inputs, and pattern x text pairs for
DiffMatch; TLC judges every record with the oracle spec/Diff.tla (DiffTrace.tla)."""
import json
import os
import shutil
import subprocess
import time

import engines
from engines import HERE, log


def run(prop, tier, seed, plan, replay_dir=None):
    t0 = time.time()
    tmp = engines.scratch()
    try:
        diffrun = engines.build("diffrun")
        rec = os.path.join(tmp, "diff.ndjson")
        args = [diffrun, "-out", rec, "-seed", str(seed)] + (["-len", "4", "-rand", "500", "-plen", "2"] if tier == "quick" else ["-len", "5", "-rand", "20000", "-plen", "3"])
        p = subprocess.run(args, capture_output=True, text=True)
        if p.returncode != 0:
            log("INFRA-ERROR: diffrun rc=%d %s" % (p.returncode, (p.stdout + p.stderr)[-1500:]))
            return 2
        d = engines.spec_copy(os.path.join(tmp, "tr"))
        outj = os.path.join(d, "out.json")
        e = engines.tlc_env(d)
        e["TRACE"], e["TRACE_OUT"] = rec, outj
        p = subprocess.run(["timeout", "3000", "tlc", "-workers", "1", "-metadir", os.path.join(d, "meta"), "-config", "DiffTrace.cfg", "DiffTrace.tla"],
                           cwd=d, env=e, capture_output=True, text=True)
        if p.returncode != 0 or not os.path.exists(outj):
            log("MODEL-ERROR: DiffTrace could not evaluate the records (rc=%d)\n%s" % (p.returncode, (p.stdout + p.stderr)[-2500:]))
            return 2
        res = json.load(open(outj))
        if not res["covered"]:
            log("MODEL-ERROR: the recorded inputs do not cover all pairs of line sequences up to length %s" % res["len"])
            return 2
        rc = 0
        nv = 0
        for i, name in enumerate(("diff", "match")):
            r = res[name]
            if r["bad"] > 0:
                nv += 1
                rd = os.path.join(HERE, "replays", "%s-%s-%d-%d" % (prop, tier, seed, i))
                shutil.rmtree(rd, ignore_errors=True)
                os.makedirs(rd)
                json.dump(dict(property=prop, function=name, mismatches=r["bad"], examples=r["ex"]), open(os.path.join(rd, "violation.json"), "w"), indent=1)
                log("violation: function=%s wrong results=%d e.g. %s" % (name, r["bad"], json.dumps(r["ex"][:1])[:400]))
                log("VIOLATION property=%s replay=%s" % (prop, rd))
                rc = 1
        n = res["diff"]["n"] + res["match"]["n"]
        if replay_dir is None:
            samples = []
            with open(rec) as f:
                for i, ln in enumerate(f):
                    if i in (7, 500, 9000) or (len(samples) < 5 and '"match"' in ln and '"empty":true' in ln):
                        samples.append(json.loads(ln))
            ev = dict(property_id=prop, tier=tier, seed=seed, level="model_checking",
                      coverage=dict(evaluations=n, distinct_nontrivial=res["nontrivial"],
                                    rule="Diff: all pairs of line sequences over {a,b,c} with at most %d lines (Covered checks the count), plus seeded long random texts with repeated and empty "
                                         "lines, missing final newline and surrounding white space; DiffMatch: all patterns of bounded length over literals and the documented placeholders "
                                         "x all texts over {a,1,newline} up to length 5, plus date placeholders. Non-trivial = Diff evaluations with a non-empty diff + DiffMatch evaluations "
                                         "that match (counted by the trace spec)" % res["len"],
                                    diff_evaluations=res["diff"]["n"], match_evaluations=res["match"]["n"],
                                    samples=samples, exhaustive=True),
                      assumptions=["diff.go is the working tree's file compiled in a scratch package (internal packages cannot be imported)",
                                   "the driver parses the unified diff text into hunks; unparsable output is recorded as not well-formed and fails"],
                      wall_s=round(time.time() - t0, 1), violations=nv)
            os.makedirs(os.path.join(HERE, "evidence"), exist_ok=True)
            json.dump(ev, open(engines.evidence_path(prop), "w"), indent=1)
        log("%s %s seed=%d: %d evaluations, %d functions with wrong results, %.1fs" % (prop, tier, seed, n, nv, time.time() - t0))
        return rc
    finally:
        shutil.rmtree(tmp, ignore_errors=True)


def replay(prop, path, plan):
    return run(prop, "quick", int(os.environ.get("VERIF_SEED", "1")), plan, replay_dir=path)
